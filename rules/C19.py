"""C19 - rule chains decide each packet by first match and delays are honoured in order (structural part)."""
from .common import *

DECIDED = ("R1 Net::rules is an insertion-ordered chain: inserted with a fresh increasing id, removed only with shift_remove (never "
           "swap_remove / remove / retain), no other reordering call; R2 Net::evaluate iterates values_mut() forward, returns from "
           "inside the loop for any verdict other than Pass and returns Pass after it; R3 Kernel::egress pushes to the harness "
           "vector only behind the false edge of is_local(dst) and folds local packets back through deliver; R4 Scheduler::tick: "
           "the Drop arm reaches neither deliver nor schedule, Deliver(non-zero) reaches only schedule; schedule inserts at the "
           "position found by binary search on (deliver_at, seq) with seq from a monotone counter; the due prefix is cut at the "
           "first `deliver_at > now`; R5 Drop for RuleGuard uninstalls its id, forget is the only way out, RuleGuard is !Send.")
NOT_DECIDED = "delivery instants relative to tokio's clock; the rules' own verdict logic."
DECIDED += "; R4 also: packets that fell due are delivered before this tick's egress is drained and routed"
DECIDED += "; R6 the delivery deadline saturates; R1 also: rule ids are unique across the Nets of a thread (recorded finding D36)"
DECIDED += "; R7 rule objects (user values that may own other RuleGuards) are destroyed only after the registry's RefCell borrow is released"
DECIDED += '; R4 also: the search key of the pending queue is the tuple (deliver_at, seq) in that order'
DECIDED += '; R3 also: nothing is removed from the egress batch between the kernels and the rule chain'
DECIDED += '; R8 EnterGuard::egress_all is called from Scheduler::tick only; the built-in Latency rule never answers Pass'
ASSUMPTIONS = ["IndexMap::shift_remove preserves the order of the remaining entries; Vec::insert keeps order"]

RULES = "turmoil_net::Net::rules"


def _on_field(b, op, field):
    o = deref_origin(b, op)
    if o["k"] == "place":
        _, fields = root_place(b, o["p"])
        return field in fields
    return False


def r1(ctx):
    R = "C19-R1"
    ctx.rule(R, "who-may-mutate Net::rules: IndexMap::insert in Net::install_rule with an id from the increasing counter next_rule_id; "
                "IndexMap::shift_remove in Net::uninstall_rule; iteration by values_mut in Net::evaluate; everything else is a violation")
    allowed = {("turmoil_net::Net::install_rule", "insert"), ("turmoil_net::Net::uninstall_rule", "shift_remove"), ("turmoil_net::uninstall_rule", "shift_remove"),
               ("turmoil_net::Net::evaluate", "values_mut")}
    ro = re.compile(r"::(len|is_empty|iter|values|keys|get|contains_key|new|default)$")
    n = 0
    for b in sorted(ctx.w.bodies.values(), key=lambda b: b.id):
        if b.crate != "turmoil_net":
            continue
        for bb, t in b.calls(re.compile(r"^indexmap::IndexMap::|IndexMap as ")):
            if not t["args"] or not _on_field(b, t["args"][0], RULES) or ro.search(t["f"]):
                continue
            m = t["f"].rsplit("::", 1)[1]
            rootb = b
            while rootb.parent and rootb.parent in ctx.w.bodies:
                rootb = ctx.w.bodies[rootb.parent]
            ok = (rootb.id, m) in allowed
            n += 1
            ctx.inst(R, f"{rootb.id}:{m}", ok, t["s"], f"{m} on the rule chain" if ok else
                     f"`{t['f']}` on Net::rules in `{rootb.id}`: the chain is no longer kept in installation order (first-match decides by a different rule)")
    ins = ctx.body(R, "turmoil_net::Net::install_rule")
    if ins:
        idw = [s for bb, i, s in ins.all_stmts() if place_last_field(s["p"]) == "turmoil_net::Net::next_rule_id"]
        inc = False
        for s in idw:
            lin = linear(ins, s["r"]["o"]) if s["r"]["k"] == "use" else None
            if lin and lin[0] == ("field", "turmoil_net::Net::next_rule_id") and lin[1] == 1:
                inc = True
        # ... or a thread-local cell: NEXT.with(|n| n.replace(n.get() + 1))
        tl = False
        for fb in ctx.w.family(ins.id):
            for bb, t in fb.calls(re.compile(r"^std::cell::Cell::(replace|set)$")):
                sh = expr_shape(fb, t["args"][1])
                if isinstance(sh, tuple) and sh[0] == "Add" and "const:1" in sh[1:]:
                    tl = True
        fresh = (inc and len(idw) == 1) or (tl and not idw)
        ctx.inst(R, "install_rule:fresh-id", fresh, ins.span, "rule ids come from a counter incremented by one per install" if fresh else
                 "rule ids are not drawn from a strictly increasing counter (an id can be reused: insert overwrites in place)")
        # a RuleGuard can outlive its Net and `uninstall_rule(id)` is applied to whatever Net is current on the thread: the id must
        # be unique among all Nets of the thread, i.e. must not come from a per-Net counter
        per_net = bool(idw)
        ctx.inst(R, "install_rule:id-outlives-net", not per_net, ins.span, "rule ids are unique across the Nets of a thread" if not per_net else
                 "rule ids come from a per-Net counter that restarts at 1, while RuleGuard::drop -> uninstall_rule applies the bare id to whichever Net is current: "
                 "a guard kept from an earlier ClientServer run uninstalls an unrelated rule (the partition) of the next run although that rule's own guard is alive")
    ctx.floor(R, 5)


def r2(ctx):
    R = "C19-R2"
    ctx.rule(R, "Net::evaluate: loop over rules.values_mut() (no rev / skip / filter); inside the loop the Pass edge of the verdict match "
                "goes back to next(), every other edge returns the rule's verdict; after the loop the result is Verdict::Pass")
    b = ctx.body(R, "turmoil_net::Net::evaluate")
    if not b:
        return
    it = [t for bb, t in b.calls(re.compile(r"^indexmap::IndexMap::values_mut$")) if _on_field(b, t["args"][0], RULES)]
    adapters = [t["f"] for bb, t in b.calls(re.compile(r"Iterator>::(rev|skip|step_by|filter|take|skip_while|take_while|peekable)$|^std::iter::Iterator::(rev|skip|step_by|filter|take|skip_while|take_while)$"))]
    ctx.inst(R, "evaluate:forward-iteration", len(it) == 1 and not adapters, b.span, "chain walked front to back with no adapter" if len(it) == 1 and not adapters else
             f"chain is not walked plainly front to back (adapters: {adapters})")
    nx = [bb for bb, t in b.calls(re.compile(r"indexmap::map::ValuesMut as std::iter::Iterator>::next$"))]
    ves = [v for v in variant_edges(b, lambda p: True) if v[3] == "turmoil_net::rule::Verdict"]
    lazy = list(b.calls(re.compile(r"Iterator>::find$|^std::iter::Iterator::find$|Iterator>::find_map$")))
    if (not ves or not nx) and lazy:
        # accepted idiom: rules.values_mut().map(|r| r.on_packet(pkt)).find(|v| !matches!(v, Pass)).unwrap_or(Pass) - lazy, stops at the first hit
        okf = False
        for bb, t in lazy:
            for cid in closure_args(b, t):
                cb = ctx.w.bodies.get(cid)
                if not cb:
                    continue
                for sbb, m, els, adt, pl in variant_edges(cb, lambda p: True):
                    if adt == "turmoil_net::rule::Verdict" and "Pass" in m:
                        # Pass -> false, anything else -> true
                        def consts_on(edge):
                            out = {}
                            for x in cb.reachable(edge[1]):
                                if not cb.dominated_by_edge(x, edge):
                                    continue
                                for s2 in cb.stmts(x):
                                    c = op_const(s2["r"].get("o")) if s2["r"]["k"] == "use" else None
                                    if c is not None and "v" in c and not s2["p"].get("p"):
                                        out[s2["p"]["l"]] = c["v"]
                            return out
                        cp, co = consts_on(m["Pass"]), consts_on(els)
                        # polarity of _0 w.r.t. the flag local
                        pol = None
                        flag = None
                        for l in set(cp) & set(co):
                            if l == 0:
                                flag, pol = 0, 1
                            else:
                                for bb2, i2, s2 in cb.defs().get(0, []):
                                    if i2 != "term" and s2["r"]["k"] == "un" and s2["r"]["op"] == "Not" and op_base(s2["r"]["a"]) == l:
                                        flag, pol = l, -1
                                    if i2 != "term" and s2["r"]["k"] == "use" and op_base(s2["r"]["o"]) == l:
                                        flag, pol = l, 1
                        if flag is not None:
                            vp = cp[flag] if pol == 1 else 1 - cp[flag]
                            vo = co[flag] if pol == 1 else 1 - co[flag]
                            okf = vp == 0 and vo == 1
        uo = [t for bb, t in b.calls(re.compile(r"^std::option::Option::unwrap_or$"))]
        okd = any(origin(b, t["args"][1]).get("k") == "agg" and origin(b, t["args"][1])["r"].get("variant") == "Pass" for t in uo)
        onp = any(True for fb in ctx.w.family(b.id) for _ in fb.calls(re.compile(r"Rule>::on_packet$|Rule::on_packet$")))
        ctx.inst(R, "evaluate:first-non-pass", okf and onp, b.span, "lazy search for the first verdict other than Pass" if okf and onp else "the iterator chain does not stop at the first non-Pass verdict")
        ctx.inst(R, "evaluate:default-pass", okd, b.span, "no rule / all Pass yields Verdict::Pass" if okd else "exhausting the chain does not yield Verdict::Pass")
    elif not ves or not nx:
        ctx.bad(R, "evaluate:first-non-pass", b.span, "no match on the rule's Verdict inside the loop")
    else:
        sbb, m, els, adt, pl = ves[0]
        pe = m.get("Pass")
        ok_pass = bool(pe) and nx[0] in b.reachable(pe[1]) and not any(b.term(x)["k"] == "return" for x in b.reachable(pe[1], stop=nx))
        others = [e for v, e in m.items() if v != "Pass"] + ([els] if len(m) < 3 else [])
        ok_ret = True
        for e in others:
            r_ = b.reachable(e[1], stop=nx)
            if nx[0] in r_ or not any(b.term(x)["k"] == "return" for x in r_):
                ok_ret = False
        ctx.inst(R, "evaluate:first-non-pass", ok_pass and ok_ret, b.term(sbb).get("s", b.span), "Pass continues with the next rule, anything else is returned at once" if ok_pass and ok_ret else
                 "the loop does not stop at the first non-Pass verdict (a later rule can override an earlier one)")
        # after the loop (None edge of next) the result is Pass
        nves = [v for v in variant_edges(b, lambda p: True) if v[3] == "std::option::Option"]
        okp = False
        for s2, m2, e2, a2, p2 in nves:
            ne = m2.get("None")
            if ne:
                r_ = b.reachable(ne[1])
                okp = any(s["r"]["k"] == "agg" and s["r"].get("variant") == "Pass" and s["p"]["l"] == 0 for x in r_ for s in b.stmts(x))
        ctx.inst(R, "evaluate:default-pass", okp, b.span, "no rule / all Pass yields Verdict::Pass" if okp else "exhausting the chain does not yield Verdict::Pass")
    ctx.floor(R, 3)


def r3(ctx):
    R = "C19-R3"
    ctx.rule(R, "Kernel::egress: Vec::push onto the caller's `out` is dominated by the false edge of Kernel::is_local(pkt.dst); the true "
                "edge reaches Kernel::deliver; nothing else writes `out`")
    b = ctx.body(R, "turmoil_net::kernel::Kernel::egress")
    if not b:
        return
    te, fe = call_guard_edges(b, "turmoil_net::kernel::Kernel::is_local")
    pushes = [(bb, t) for bb, t in b.calls(re.compile(r"^std::vec::Vec::(push|extend|insert|append|extend_from_slice)$|Vec as std::iter::Extend")) if
              any(a.startswith("arg:2:") for a in Slicer(ctx.w).atoms(b, t["args"][0]))]
    for bb, t in pushes:
        ok = bool(fe) and b.dominated_by_any(bb, edges=fe) and t["f"].endswith("::push")
        ctx.inst(R, "egress:loopback-never-leaves", ok, t["s"], "only non-local packets are handed to the harness (and its rules)" if ok else
                 "a packet can be handed to the harness without the `!is_local(dst)` test: loopback traffic becomes visible to rules / the fabric")
    if not pushes:
        ctx.bad(R, "egress:loopback-never-leaves", b.span, "no push onto `out` found")
    dl = [bb for bb, t in b.calls("turmoil_net::kernel::Kernel::deliver")]
    ok = bool(te) and bool(dl) and all(b.dominated_by_any(x, edges=te) for x in dl)
    ctx.inst(R, "egress:loopback-folds-back", ok, b.span, "local packets are delivered inside the kernel" if ok else "local packets are not folded back through Kernel::deliver")
    for sbb, t_e, f_e, o in guards_on(b, lambda o: o["k"] == "call" and o["t"]["f"].endswith("Kernel::is_local")):
        at = Slicer(ctx.w).atoms(b, o["t"]["args"][1])
        ctx.inst(R, "egress:is_local-of-dst", "field:turmoil_net::kernel::packet::Packet::dst" in at and "field:turmoil_net::kernel::packet::Packet::src" not in at,
                 o["t"]["s"], "locality decided by the destination address")
    # between the kernels and the rule chain nothing is taken out again: what Kernel::egress handed over is what the scheduler evaluates
    DROPS = re.compile(r"^std::vec::Vec::(retain|retain_mut|remove|swap_remove|truncate|clear|drain|pop|dedup|dedup_by|dedup_by_key|split_off)$")
    for fid in ("turmoil_net::fabric::Fabric::egress_all", "turmoil_net::EnterGuard::egress_all", "turmoil_net::Net::egress_all"):
        eb = ctx.w.bodies.get(fid)
        if not eb:
            continue
        bad = [t for fb in ctx.w.family(fid) for bb, t in fb.calls(DROPS)
               if t["args"] and any(re.match(r"arg:\d+:", a) and "Vec" in fb.ty_str(fb.locals[int(a.split(":")[1])]["ty"]) if a.split("@")[-1] == fb.id else False
                                    for a in Slicer(ctx.w).atoms(fb, t["args"][0]))]
        ctx.inst(R, f"{fid.rsplit('::', 2)[-2]}::egress_all:hands-over-everything", not bad, bad[0]["s"] if bad else eb.span, "every packet collected from the hosts is handed to the rule chain" if not bad else
                 f"`{fid}` removes packets from the batch it collected (`{bad[0]['f'].rsplit('::', 1)[1]}`): a packet that left its host is never shown to the rules - a counting or "
                 "recording rule misses it and every later decision of a stateful rule shifts")
    ctx.floor(R, 4)


def _schedule_fn(ctx):
    """the method of the fixture's Scheduler that files a delayed packet: the one that inserts into Scheduler::pending (by role, not by name)"""
    out = []
    for fb in ctx.w.find(r"^turmoil_net::fixture::scheduler::Scheduler::\w+$"):
        if any(_on_field(fb, t["args"][0], "turmoil_net::fixture::scheduler::Scheduler::pending")
               for bb, t in fb.calls(re.compile(r"^std::vec::Vec::(insert|push)$|VecDeque::(insert|push_back)$")) if t["args"]):
            out.append(fb.id)
    return out[0] if len(out) == 1 else None


def r4(ctx):
    R = "C19-R4"
    ctx.rule(R, "Scheduler::tick verdict routing and Scheduler::schedule ordering: Drop reaches no deliver/schedule; Deliver(d) with d != 0 "
                "reaches schedule (not deliver); schedule inserts at binary_search_by((deliver_at, seq)) with seq from next_seq (+1 per call); "
                "ready prefix = position(deliver_at > now); pending is drained from the front")
    b = ctx.body(R, "turmoil_net::fixture::scheduler::Scheduler::tick")
    SCHED = _schedule_fn(ctx)
    if b:
        ves = [v for v in variant_edges(b, lambda p: True) if v[3] == "turmoil_net::rule::Verdict"]
        dl = [bb for bb, t in b.calls(re.compile(r"EnterGuard::deliver$"))]
        sc = [bb for bb, t in b.calls(SCHED or "turmoil_net::fixture::scheduler::Scheduler::schedule")]
        nx = [bb for bb, t in b.calls(re.compile(r"vec::Drain as std::iter::Iterator>::next$"))]
        if ves:
            sbb, m, els, adt, pl = ves[0]
            de = m.get("Drop")
            if de:
                r_ = b.reachable(de[1], stop=nx)
                ok = not any(x in r_ for x in dl + sc)
                ctx.inst(R, "tick:drop-is-dropped", ok, b.term(de[1]).get("s", b.span), "a Drop verdict reaches neither deliver nor schedule" if ok else
                         "a packet with verdict Drop can still be delivered or scheduled")
            else:
                ctx.bad(R, "tick:drop-is-dropped", b.span, "no Drop arm in the verdict match")
            ve = m.get("Deliver")
            if ve:
                r_ = b.reachable(ve[1], stop=nx)
                zte, zfe = call_guard_edges(b, re.compile(r"^std::time::Duration::is_zero$"))
                ok = bool(sc) and all(x in r_ for x in sc) and bool(zfe) and all(b.dominated_by_any(x, edges=zfe) for x in sc)
                okd = all((not b.dominated_by_edge(x, ve)) or (zte and b.dominated_by_any(x, edges=zte)) for x in dl)
                ctx.inst(R, "tick:delay-is-scheduled", ok and okd, b.term(ve[1]).get("s", b.span), "Deliver(d>0) is scheduled, never delivered at once" if ok and okd else
                         "a packet given Deliver(d) with d > 0 can be delivered immediately or is not scheduled")
        else:
            ctx.bad(R, "tick:verdict-match", b.span, "no match on Verdict in Scheduler::tick")
        # due prefix
        fam = ctx.w.family(b.id)
        okpos = False
        DA_, NOW_ = "field:turmoil_net::fixture::scheduler::Scheduled::deliver_at", "field:turmoil_net::fixture::scheduler::Scheduler::now"
        # `position(|s| s.deliver_at > now)` (first not-yet-due element) or `take_while(|s| s.deliver_at <= now).count()` (length of the due prefix)
        pos = list(b.calls(re.compile(r"Iterator>::position$|^std::iter::Iterator::position$")))
        tw = list(b.calls(re.compile(r"Iterator>::take_while$|^std::iter::Iterator::take_while$")))
        want = {"gt": (DA_, NOW_), "lt": (NOW_, DA_)} if pos else {"le": (DA_, NOW_), "ge": (NOW_, DA_)} if tw and any(True for _ in b.calls(re.compile(r"Iterator::count$|Iterator>::count$"))) else {}
        if not pos:
            pos = tw
        for fb in fam:
            if fb.id == b.id:
                continue
            for bb, t in fb.calls(re.compile(r"PartialOrd>::(gt|lt|le|ge)$|^std::cmp::PartialOrd::(gt|lt|le|ge)$")):
                a0 = Slicer(ctx.w).atoms(fb, t["args"][0])
                a1 = Slicer(ctx.w).atoms(fb, t["args"][1])
                w_ = want.get(t["f"].rsplit("::", 1)[1])
                if w_ and w_[0] in a0 and w_[1] in a1 and w_[1] not in a0 and w_[0] not in a1:
                    okpos = True
        dr = [t for bb, t in b.calls(re.compile(r"^std::vec::Vec::drain$")) if _on_field(b, t["args"][0], "turmoil_net::fixture::scheduler::Scheduler::pending")]
        ctx.inst(R, "tick:due-prefix", okpos and len(pos) == 1 and len(dr) == 1, b.span, "due packets = prefix before the first deliver_at > now, drained front to back" if okpos and pos and dr else
                 "the due prefix is not computed as position(|s| s.deliver_at > now) and drained from the front")
        # due packets of earlier ticks go out before anything emitted in this tick is routed
        drb = [bb for bb, t in b.calls(re.compile(r"^std::vec::Vec::drain$")) if _on_field(b, t["args"][0], "turmoil_net::fixture::scheduler::Scheduler::pending")]
        ea = [bb for bb, t in b.calls(re.compile(r"EnterGuard::egress_all$"))]
        due_dl = [x for x in dl if not (ves and b.dominated_by_block(x, ves[0][0]))]
        # `ready.into_iter().for_each(|s| guard.deliver(s.pkt))`: the delivery loop as a closure; the for_each call is the delivery site
        for bb, t in b.calls(re.compile(r"Iterator::for_each$|Iterator>::for_each$")):
            for cid in closure_args(b, t):
                cb = ctx.w.bodies.get(cid)
                cdl = [x for x, _ in cb.calls(re.compile(r"EnterGuard::deliver$"))] if cb else []
                if cdl and all(r_ not in cb.reachable(0, removed_blocks=cdl) for r_ in cb.exits()) and not (ves and b.dominated_by_block(bb, ves[0][0])):
                    due_dl.append(bb)
        okord = len(drb) == 1 and bool(ea) and bool(due_dl) and all(b.dominated_by_block(x, drb[0]) for x in ea) and \
            all(x not in b.reachable(e) for e in ea for x in due_dl)
        ctx.inst(R, "tick:due-before-new", okord, b.span, "packets that fell due are delivered before this tick's egress is drained and routed" if okord else
                 "Scheduler::tick routes this tick's egress before (or without) delivering the packets that fell due: a packet emitted later with "
                 "an immediate verdict overtakes an earlier one whose delay ends on this tick")
        # the clock is advanced before the due prefix is computed
        adv = [bb for bb, t in b.calls(re.compile(r"Instant as std::ops::AddAssign>::add_assign$|Duration as std::ops::AddAssign>::add_assign$"))
               if "field:turmoil_net::fixture::scheduler::Scheduler::now" in Slicer(ctx.w).atoms(b, t["args"][0])]
        okadv = len(adv) == 1 and bool(pos) and all(b.dominated_by_block(x, adv[0]) for x, _ in pos) and any(a.startswith("arg:3:") for a in Slicer(ctx.w).atoms(b, b.term(adv[0])["args"][1]))
        ctx.inst(R, "tick:clock-advances-first", okadv, b.span, "now += dt happens before due packets are selected" if okadv else
                 "Scheduler::tick does not advance `now` by dt before selecting due packets (deliveries slip by a tick)")
    s = ctx.body(R, SCHED or "turmoil_net::fixture::scheduler::Scheduler::schedule")
    if s:
        # the delay is the Duration parameter, wherever it is declared
        dpos = [k + 1 for k, ti in enumerate(ctx.w.fns[s.id]["inputs"]) if ctx.w.tys[s.crate][ti]["s"].endswith("Duration")] if s.id in ctx.w.fns else []
        DARG = f"arg:{dpos[0]}:" if len(dpos) == 1 else "arg:3:"
        SEARCH = re.compile(r"binary_search_by$|binary_search_by_key$|partition_point$|Iterator>::position$|^std::iter::Iterator::position$")
        bs = list(s.calls(SEARCH))
        ins = [t for bb, t in s.calls(re.compile(r"^std::vec::Vec::(insert|push)$|VecDeque::(insert|push_back)$")) if _on_field(s, t["args"][0], "turmoil_net::fixture::scheduler::Scheduler::pending")]
        D, Q = "field:turmoil_net::fixture::scheduler::Scheduled::deliver_at", "field:turmoil_net::fixture::scheduler::Scheduled::seq"
        # the search predicate / comparator (closure family) must look at both the deadline and the emission sequence
        okkey = False
        for fb in ctx.w.family(s.id):
            if fb.id == s.id:
                continue
            at = set()
            for bb, t in fb.calls():
                for a in t["args"]:
                    at |= Slicer(ctx.w).atoms(fb, a)
            for bb, i, st in fb.all_stmts():
                for o in ([st["r"].get("a"), st["r"].get("b")] if st["r"]["k"] == "bin" else []):
                    if o:
                        at |= Slicer(ctx.w).atoms(fb, o)
            if D in at and Q in at:
                okkey = True
            # a tuple key is compared lexicographically: the deadline comes first, the emission number only breaks ties
            for bb, i, st in fb.all_stmts():
                r = st["r"]
                if i != "term" and r["k"] == "agg" and r.get("ak") == "tuple" and len(r.get("ops", [])) >= 2:
                    ats = [Slicer(ctx.w).atoms(fb, o) for o in r["ops"]]
                    dp = [k for k, a in enumerate(ats) if D in a and Q not in a]
                    qp = [k for k, a in enumerate(ats) if Q in a and D not in a]
                    if dp and qp and not dp[0] < qp[0]:
                        okkey = False
                        ctx.bad(R, "schedule:key-order", st["s"], "the pending queue is searched with the key (seq, deliver_at): the emission number is unique, so the queue ends up in "
                                "emission order and `tick`, which delivers the due *prefix*, lets one packet with a long delay block every packet scheduled after it")
        ok_ins = False
        if len(ins) == 1 and ins[0]["f"].endswith("insert") and bs and len(ins[0]["args"]) > 1:
            ia = Slicer(ctx.w).atoms(s, ins[0]["args"][1])
            ok_ins = any(a.startswith("call:") and SEARCH.search(a[5:]) for a in ia)
        ctx.inst(R, "schedule:ordered-insert", bool(bs) and okkey and ok_ins, s.span, "inserted at the searched position of (deliver_at, seq)" if bs and okkey and ok_ins else
                 "the pending queue is not kept sorted by (deliver_at, seq): the insertion point is not found by a search over both the deadline and the emission sequence, so equal deadlines lose their emission order or delays are reordered")
        sq = [st for bb, i, st in s.all_stmts() if place_last_field(st["p"]) == "turmoil_net::fixture::scheduler::Scheduler::next_seq"]
        inc = any((linear(s, st["r"]["o"]) or (None, None)) == (("field", "turmoil_net::fixture::scheduler::Scheduler::next_seq"), 1) for st in sq if st["r"]["k"] == "use")
        ctx.inst(R, "schedule:monotone-seq", inc and len(sq) == 1, s.span, "tie-break sequence increases by one per scheduled packet" if inc else "tie-break sequence is not a monotone counter")
        da = False
        for bb, t in s.calls(re.compile(r"Instant as std::ops::Add>::add$|Duration as std::ops::Add>::add$|Duration::saturating_add$|Duration::checked_add$")):
            a0 = Slicer(ctx.w).atoms(s, t["args"][0])
            a1 = Slicer(ctx.w).atoms(s, t["args"][1])
            if "field:turmoil_net::fixture::scheduler::Scheduler::now" in a0 and any(a.startswith(DARG) for a in a1):
                da = True
        ctx.inst(R, "schedule:deadline", da, s.span, "deadline = now + delay" if da else "deadline is not now + delay")
    ctx.floor(R, 7)


def r5(ctx):
    R = "C19-R5"
    ctx.rule(R, "Drop for RuleGuard calls uninstall_rule(self.id) on every path; uninstall_rule reaches Net::uninstall_rule with that id; "
                "mem::forget appears only in RuleGuard::forget; RuleGuard has a PhantomData<*const ()> field (so it is !Send)")
    d = ctx.w.drop_impl("turmoil_net::rule::RuleGuard")
    if not d:
        ctx.bad(R, "guard-drop", "", "RuleGuard has no Drop impl: a dropped guard leaves its rule installed")
    else:
        db = ctx.w.bodies[d]
        cs = list(db.calls("turmoil_net::uninstall_rule"))
        ok = len(cs) == 1 and not always_passes(db, [cs[0][0]])
        okid = ok and "field:turmoil_net::rule::RuleGuard::id" in Slicer(ctx.w).atoms(db, cs[0][1]["args"][0])
        ctx.inst(R, "guard-drop", ok and okid, db.span, "dropping the guard uninstalls its rule" if ok and okid else "Drop for RuleGuard does not always uninstall its own rule id")
    u = ctx.body(R, "turmoil_net::uninstall_rule")
    if u:
        ok = bool(may_call(ctx.w, [u.id], "turmoil_net::Net::uninstall_rule")) or \
            any(_on_field(fb, t["args"][0], RULES) for fb in ctx.w.family(u.id) for bb, t in fb.calls(re.compile(r"^indexmap::IndexMap::shift_remove$")) if t["args"])
        ctx.inst(R, "uninstall-reaches-net", ok, u.span, "free uninstall_rule reaches Net::uninstall_rule" if ok else "uninstall_rule no longer reaches Net::uninstall_rule")
    fg = [b.id for b, bb, t in who_calls(ctx.w, re.compile(r"^std::mem::forget$")) if b.crate == "turmoil_net" and "RuleGuard" in "".join(b.tys[a]["s"] for a in t.get("at", ()))]
    ctx.inst(R, "forget-only-in-forget", set(fg) <= {"turmoil_net::rule::RuleGuard::forget"}, "", f"mem::forget(RuleGuard) in {sorted(set(fg))}")
    a = ctx.w.adts.get("turmoil_net::rule::RuleGuard")
    if a:
        tys = ctx.w.tys[a["crate"]]
        ns = any("ty" in f and "PhantomData<*const" in tys[f["ty"]]["s"] for v in a["variants"] for f in v["fields"])
        ctx.inst(R, "guard-not-send", ns, a.get("span", ""), "RuleGuard carries PhantomData<*const ()>: !Send" if ns else "RuleGuard lost its !Send marker")
    ctx.floor(R, 4)


def r6(ctx):
    R = "C19-R6"
    ctx.rule(R, "deadline arithmetic does not overflow: Scheduler::schedule computes the delivery deadline `now + delay` with a saturating "
                "/ checked addition - `Deliver(d)` accepts any Duration, and with the panicking `+` a rule that holds packets 'for ever' "
                "(Duration::MAX) aborts the whole simulation instead of parking the packet")
    s = ctx.body(R, _schedule_fn(ctx) or "turmoil_net::fixture::scheduler::Scheduler::schedule")
    if not s:
        return
    adds = [(bb, t) for bb, t in s.calls(re.compile(r"Duration as std::ops::Add>::add$|Instant as std::ops::Add<.*>>::add$|::saturating_add$|::checked_add$"))
            if "field:turmoil_net::fixture::scheduler::Scheduler::now" in Slicer(ctx.w).atoms(s, t["args"][0]) | Slicer(ctx.w).atoms(s, t["args"][1])]
    for bb, t in adds:
        ok = not t["f"].endswith("::add")
        ctx.inst(R, "schedule:deadline-saturates", ok, t["s"], "deadline = now saturating_add delay" if ok else
                 "Scheduler::schedule adds the delay to the clock with the panicking `+`: Deliver(Duration::MAX) panics with `overflow when adding durations`")
    ctx.floor(R, 1)


def r7(ctx):
    R = "C19-R7"
    ctx.rule(R, "a rule stops applying the moment its guard is dropped - whatever the rule owns: rule objects are user values (closures) and may own "
                "other RuleGuards, whose Drop re-enters the registry. Removing a rule and tearing the Net down must therefore destroy rule objects "
                "only after the registry's RefCell borrow is released: inside the closures handed to CURRENT.with(..) by uninstall_rule and "
                "EnterGuard::drop, and in the Net methods they call, nothing of a type that contains rule objects (Box<dyn Rule>, the rule "
                "map, Net itself) is dropped or overwritten")
    CUR = "turmoil_net::CURRENT"
    roots = ["turmoil_net::uninstall_rule", "<turmoil_net::EnterGuard as std::ops::Drop>::drop"]
    n = 0
    for rid in roots:
        rb = ctx.body(R, rid)
        if not rb:
            continue
        inside = []
        for bb, t in rb.calls(re.compile(r"LocalKey<T>::with$|LocalKey::with$")):
            for cid in closure_args(rb, t):
                cb = ctx.w.bodies.get(cid)
                if cb is None:
                    continue
                inside.append(cb)
                for bb2, t2 in cb.calls(re.compile(r"^turmoil_net::Net::")):
                    if t2["f"] in ctx.w.bodies:
                        inside.append(ctx.w.bodies[t2["f"]])
        bad = []
        for fb in inside:
            live = fb.reachable(0)
            for bb in sorted(live):
                t = fb.term(bb)
                if t["k"] != "drop" or not isinstance(t.get("ty"), int):
                    continue
                ts = fb.tys[t["ty"]].get("s", "")
                if ts.startswith(("std::cell::RefMut", "std::cell::Ref<")):
                    continue
                if "dyn rule::Rule" in ts or re.search(r"\bNet\b", ts):
                    bad.append((fb.id, ts, t.get("s") or fb.span))
        n += 1
        ctx.inst(R, f"rules-dropped-outside-borrow:{rid}", bool(inside) and not bad, bad[0][2] if bad else rb.span,
                 "rule objects leave the registry before they are destroyed" if inside and not bad else
                 (f"`{bad[0][0]}` destroys a `{bad[0][1]}` while the registry's RefCell is mutably borrowed: a rule that owns the RuleGuard of another rule "
                  "re-enters the registry from its destructor and panics (`RefCell already borrowed`) - dropping the owner's guard aborts instead of removing both rules, "
                  "and a Net whose rules own guards cannot be torn down" if bad else f"`{rid}` no longer goes through CURRENT.with(..): re-derive"))
    ctx.floor(R, 2)


def r8(ctx):
    R = "C19-R8"
    ctx.rule(R, "(a) what leaves the kernels goes to the scheduler: EnterGuard::egress_all is called from Scheduler::tick only - a fixture that "
                "drains egress itself (a loopback-only shortcut) discards non-loopback packets without consulting a single rule; (b) the "
                "built-in Latency rule decides every packet it is shown: its on_packet never answers Pass (a zero delay is Deliver(0), "
                "which ends the chain - later rules must not see the packet)")
    callers = sorted({_rootid(ctx, b) for b, bb, t in who_calls(ctx.w, re.compile(r"EnterGuard::egress_all$"))})
    ok = bool(callers) and all(c.startswith("turmoil_net::fixture::scheduler::Scheduler::") for c in callers)
    ctx.inst(R, "egress_all:only-the-scheduler", ok, "", f"egress_all is called from {callers}" if ok else
             f"EnterGuard::egress_all is called from {callers}: packets drained there never reach Net::evaluate - installed rules are not consulted for them (the `lo` and `ClientServer` "
             "fixtures no longer agree on the rule-chain contract)")
    lp = ctx.w.bodies.get("<turmoil_net::rule::Latency as turmoil_net::rule::Rule>::on_packet")
    if lp:
        passes = [s2["s"] for bb, i, s2 in lp.all_stmts() if i != "term" and s2["r"]["k"] == "agg" and s2["r"].get("variant") == "Pass"]
        ctx.inst(R, "latency-rule:always-decides", not passes, passes[0] if passes else lp.span, "Latency::on_packet always answers Deliver(delay)" if not passes else
                 "the built-in Latency rule answers Pass on some path: a zero-delay Latency installed ahead of other rules no longer ends the chain - packets it should have delivered at "
                 "once are dropped or delayed by later rules")
    elif ctx.strict:
        ctx.bad(R, "anchor-missing:Latency::on_packet", "", "Rule impl of Latency not found")
    ctx.floor(R, 2)


def _rootid(ctx, b):
    while b.parent and b.parent in ctx.w.bodies:
        b = ctx.w.bodies[b.parent]
    return b.id


def run(ctx):
    r8(ctx)
    r7(ctx)
    r6(ctx)
    r1(ctx)
    r2(ctx)
    r3(ctx)
    r4(ctx)
    r5(ctx)


def extra(tier, repo, work, insts):
    """E5 compile-fail witnesses (thorough tier)"""
    if tier != "thorough":
        return []
    from engine.side import witnesses
    return witnesses("C19", repo, work)
