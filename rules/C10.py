"""C10 - without a crash the simulated filesystem behaves like a plain POSIX file tree (structural clauses only)."""
from .common import *
from . import C04, C07, C18

DECIDED = ("only the clauses whose truth is in the shape of the code - R1 one implementation behind three API surfaces: every function of "
           "the tokio shim reaches its std-shim counterpart and calls no Fs primitive itself except the latency sampler, and the io_uring "
           "executors use the same Fs primitives behind the same guards as the synchronous file API (shared C18-R4); R2 observers are "
           "read-only: the functions every read / length / existence / listing answer is computed by take `&Fs` (a query can never "
           "change the tree, and neither can the passage of time: no observer reads the clock); R3 sync operations neither drop nor "
           "duplicate log records: every record a sync removes from the pending log is applied to the persisted image exactly once and "
           "the rest is kept (shared C07-R3), and only the sync / crash code touches the persisted image (shared C07-R1); R4 per-host "
           "isolation: every host gets a freshly constructed Fs and a tick enters exactly the Fs of the host being ticked (shared C04-R6).")
NOT_DECIDED = ("the functional equivalence itself: that the overlay of pending records on the persisted image (existence, lengths, contents, "
               "listings under renames, hard links, truncation and extension) equals a reference POSIX tree for every history; that applying "
               "a flushed record to the persisted image leaves the merged view unchanged. Those live in string / offset arithmetic and in the "
               "order-dependent meaning of the log; no structural rule here decides them (DESIGN.md section 6).")
DECIDED += ("; R4 position bookkeeping: the cursor stored after a cursor read / write is the transfer's own offset plus its result, and no "
            "record is logged for an empty write")
DECIDED += ("; R5 name-space checks before creation: open creates a file only where no directory has the name, create_dir_all skips only existing "
            "directories, positioned writes / seeks do their offset arithmetic without a panicking operator, a truncating open logs its SetLen(0) whatever it created, "
            "rename tests the destination's parent, and a chain of pending renames is followed to its origin")
DECIDED += ("; R6 a listing applies its existence tests to the candidate entry, and a flushed SetLen / Rename changes the durable image "
            "the way the merged view showed it (shared C07-R14)")
DECIDED += "; R3 sibling replays of the pending log consider the same record kinds (file_len ~ read_file, dir_entries ~ dir_has_children)"
DECIDED += '; a cancelled ring operation is taken out of whichever pool holds it (shared C18-R1)'
DECIDED += '; R7 the tokio OpenOptions forwards each option to the std setter of the same name; a refused seek leaves the cursor where it was'
DECIDED += ('; R8 frames of reference: every bound with which a read indexes the caller\'s buffer is a buffer position - file positions '
            '(offset, file_len, persisted length, a pending record\'s len / offset) are translated by subtracting the read offset before they meet a length')
ASSUMPTIONS = ["Rust's &T / &mut T discipline: a function taking &Fs cannot mutate the tree (Fs has no interior mutability: checked)"]

OBSERVERS = ["file_exists", "dir_exists", "symlink_exists", "file_len", "read_file", "dir_entries", "read_link", "file_mode", "dir_mode",
             "file_nlink", "file_timestamps", "dir_timestamps", "symlink_timestamps", "parent_exists", "dir_has_children",
             "resolve_content_path", "resolve_hardlink_target", "resolve_persisted_path", "resolve_symlink_path", "path_renamed_to", "used_bytes"]


def r1(ctx):
    R = "C10-R1"
    ctx.rule(R, "every function of turmoil_fs::shim::tokio::fs either reaches a function of shim::std::fs or is a pure builder / conversion, and "
                "its family calls no `Fs::` primitive directly other than Fs::calculate_latency (a re-implemented operation could diverge from "
                "the std shim); exec_read / exec_write / exec_fsync agree with the std shim (C18-R4)")
    n = 0
    for b in sorted(ctx.w.bodies.values(), key=lambda b: b.id):
        if not b.id.startswith("turmoil_fs::shim::tokio::fs::") or b.kind not in ("Fn", "AssocFn"):
            continue
        n += 1
        direct = set()
        for fb in ctx.w.family(b.id):
            for bb, t in fb.calls(re.compile(r"^turmoil_fs::Fs::")):
                direct.add(t["f"].rsplit("::", 1)[1])
            for bb, i, s in fb.all_stmts():
                for f in place_fields(s["p"]):
                    if f.startswith("turmoil_fs::Fs::"):
                        direct.add("write:" + f.rsplit("::", 1)[1])
        extra = sorted(direct - {"calculate_latency"})
        ctx.inst(R, f"tokio-shim:{b.id[len('turmoil_fs::shim::tokio::fs::'):]}", not extra, b.span, "delegates to the std shim (only the latency sampler is its own)" if not extra else
                 f"`{b.id}` uses Fs primitives {extra} itself instead of delegating to the std shim: the tokio API can return something the std API would not")
    ctx.floor(R, 40)
    C18.r4(ctx)
    if ctx.config in ("all", "fs_iou"):
        C18.r1(ctx)   # a ring operation takes effect at most once: a cancelled op is taken out of its pool and never executed


def r2(ctx):
    R = "C10-R2"
    ctx.rule(R, "type facts: the observer functions of Fs take `&self` (not `&mut self`), Fs's fields hold no Cell / RefCell / Mutex / atomics, and "
                "no observer family reads the clock (FsContext::now / CURRENT_NOW) - a query, a sync or the passage of time cannot change what a later query sees")
    for name in OBSERVERS:
        fid = "turmoil_fs::Fs::" + name
        f = ctx.w.fns.get(fid)
        if not f:
            if ctx.strict:
                ctx.bad(R, f"anchor-missing:{fid}", "", f"observer `{fid}` not found")
            continue
        t0 = ctx.w.tys[f["crate"]][f["inputs"][0]] if f["inputs"] else {}
        ok = t0.get("k") == "ref" and not t0.get("mut")
        clock = [t["f"] for fb in ctx.w.family(fid) for bb, t in fb.calls(re.compile(r"FsContext::now$|Instant::now$|SystemTime::now$"))] if fid in ctx.w.bodies else []
        ctx.inst(R, f"observer:{name}", ok and not clock, f["span"], "read-only (&self), time-independent" if ok and not clock else
                 f"`{fid}` " + ("takes &mut self: answering a query can change the tree" if not ok else f"reads the clock ({clock}): its answer changes with time"))
    a = ctx.w.adts.get("turmoil_fs::Fs")
    if a:
        tys = ctx.w.tys[a["crate"]]
        bad = [f["name"] for v in a["variants"] for f in v["fields"] if "ty" in f and re.search(r"\b(Cell|RefCell|Mutex|RwLock|Atomic\w+|OnceCell)\b<?", tys[f["ty"]]["s"])]
        ctx.inst(R, "Fs:no-interior-mutability", not bad, a.get("span", ""), "Fs has no interior-mutable field" if not bad else f"Fs fields {bad} are interior-mutable: &self observers could mutate")
    ctx.floor(R, 20)


REPLAY_SIBLINGS = (
    ("file_len", "read_file", {"Write", "SetLen"},
     "a file's length and its contents are decided by the same records: a pending truncation (SetLen) cuts what a later read may return"),
    ("dir_entries", "dir_has_children", None,
     "`what is in this directory` and `is this directory empty` must be answered from the same records"),
)


def _replayed_kinds(ctx, fid):
    OP = "turmoil_fs::PendingOp"
    vs = set()
    for fb in ctx.w.family(fid):
        for sbb, m, els, adt, pl in variant_edges(fb, lambda p: True):
            if adt != OP:
                continue
            for v, e in m.items():
                if e[1] != els[1]:
                    vs.add(v)
    return vs


def r3(ctx):
    R = "C10-R3"
    ctx.rule(R, "sibling replays of the pending log consider the same kinds of record: the observers answer queries by replaying Fs::pending over "
                "the persisted image, each with its own `match` on PendingOp; two observers of one quantity that disagree on which record kinds "
                "matter disagree with each other (and a sync, which applies every record, then changes what is observed). Pairs: " +
                "; ".join(f"{a} ~ {b}" for a, b, _, _ in REPLAY_SIBLINGS))
    for a, b, need, why in REPLAY_SIBLINGS:
        fa, fb_ = "turmoil_fs::Fs::" + a, "turmoil_fs::Fs::" + b
        ba, bb_ = ctx.body(R, fa), ctx.body(R, fb_)
        if not ba or not bb_:
            continue
        ka, kb = _replayed_kinds(ctx, fa), _replayed_kinds(ctx, fb_)
        want = set(need) if need else (ka | kb)
        missing = {b: sorted(want - kb), a: sorted(want - ka)}
        ok = not missing[a] and not missing[b]
        ctx.inst(R, f"replay-siblings:{a}~{b}", ok, bb_.span, f"both replay {sorted(want)}" if ok else
                 f"`{a}` replays {sorted(ka)} but `{b}` replays {sorted(kb)} ({'; '.join(f'{k} ignores {v}' for k, v in missing.items() if v)}): {why}")
    ctx.floor(R, 2)


CURSOR = "turmoil_fs::shim::std::fs::File::cursor"
POSITIONED = re.compile(r"^turmoil_fs::shim::std::fs::File::(read_at_internal|write_at_internal)$")


def _guard_of(ctx, b, l, depth=0):
    """the lock-guard local a reference local was derived from (`&cursor` / `&mut cursor` -> Deref::deref[_mut])"""
    # (a store `*r = v` counts as a definition of r for single_def: look the producing call up directly)
    ts = [t for bb, t in b.calls(re.compile(r"::deref(_mut)?$")) if t["d"]["l"] == l and not t["d"].get("p")]
    if len(ts) == 1 and ts[0]["args"]:
        d = origin(b, ts[0]["args"][0])
        if d["k"] == "ref" and not d["p"].get("p"):
            return d["p"]["l"]
    return None


def _value_root(ctx, b, op, depth=0):
    """where an integer value comes from, through copies and casts: ('local', l) for a named / multiply-assigned local,
    ('cursor', guard) for a read of the locked cursor, ('other', ..) else"""
    pl = op_place(op)
    if pl is None or depth > 30:
        return ("other", None)
    if pl.get("p"):
        if pl["p"] == ["*"]:
            g = _guard_of(ctx, b, pl["l"])
            if g is not None:
                return ("cursor", g)
        return ("other", None)
    d = single_def(b, pl["l"])
    if d is None or d[1] == "term":
        return ("local", pl["l"])
    r = d[2]["r"]
    if r["k"] in ("use", "cast") and not d[2]["p"].get("p"):
        q = op_place(r["o"])
        if q is not None and (not q.get("p") or q["p"] == ["*"]):
            v = _value_root(ctx, b, r["o"], depth + 1)
            if v[0] != "other":
                return v
    return ("local", pl["l"])


def r4(ctx):
    R = "C10-R4"
    ctx.rule(R, "the file position after a cursor read / write is the offset the transfer was made at plus the bytes transferred: in every "
                "function of the std shim that performs a positioned transfer (read_at_internal / write_at_internal) and then stores the "
                "File's cursor, the stored value is `base + n` where `base` is the very value passed as the transfer's offset (in append mode "
                "that is the end of file, not the old cursor) and `n` the transfer's result; Fs::write_file logs no record for an empty write "
                "(an empty record at an offset past the end would extend the file: file_len is the maximum end of the pending writes)")
    n = 0
    for b in sorted(ctx.w.bodies.values(), key=lambda b: b.id):
        if b.crate != "turmoil_fs" or "turmoil_fs::shim::std::fs::" not in b.id:
            continue
        xfers = [(bb, t) for bb, t in b.calls(POSITIONED)]
        if not xfers:
            continue
        stores = []
        for bb, i, s2 in b.all_stmts():
            if i == "term" or s2["p"].get("p") != ["*"]:
                continue
            g = _guard_of(ctx, b, s2["p"]["l"])
            if g is None:
                continue
            ga = Slicer(ctx.w).atoms(b, {"c": {"l": g}})
            if "field:" + CURSOR in ga:
                stores.append((bb, i, s2))
        for bb, i, s2 in stores:
            n += 1
            bb0, t = next(((xb, xt) for xb, xt in xfers if bb in b.reachable(xb)), xfers[0])
            off = _value_root(ctx, b, t["args"][2]) if len(t["args"]) > 2 else ("other", None)
            # the stored value: base + n
            o = s2["r"].get("o")
            bases = []
            dd = None
            pl = op_place(o) if o else None
            if pl is not None:
                q = {"c": {"l": pl["l"]}}
                oo = origin(b, q)
                if oo["k"] == "bin" and oo["op"].startswith("Add"):
                    bases = [_value_root(ctx, b, oo["a"]), _value_root(ctx, b, oo["b"])]
                elif oo["k"] == "call" and re.search(r"::(checked_add|saturating_add|wrapping_add)$", oo["t"]["f"]):
                    bases = [_value_root(ctx, b, a) for a in oo["t"]["args"][:2]]
            res_ok = any("call:" + t["f"] in Slicer(ctx.w).atoms(b, a) or any(x.startswith("call:") and "at_internal" in x for x in Slicer(ctx.w).atoms(b, a))
                         for a in ([oo["a"], oo["b"]] if bases and oo["k"] == "bin" else oo["t"]["args"][:2] if bases else []))
            ok = bool(bases) and off[0] != "other" and off in bases and res_ok
            ctx.inst(R, f"cursor-advance:{b.id}#{nth({}, b.id)}", ok, s2["s"], "cursor := transfer offset + bytes transferred" if ok else
                     f"`{b.id}` stores a cursor that is not `offset passed to {t['f'].rsplit('::', 1)[1]} + bytes transferred` "
                     f"(offset comes from {off}, stored sum is over {bases}): after an append-mode write the position is not the end of the data just written, "
                     "so the next read / write / seek(Current) differs from a POSIX file")
    ctx.inst(R, "cursor-advance:found", n >= 2, "", f"{n} cursor stores after a positioned transfer analysed" if n >= 2 else "fewer than 2 cursor stores found (File::read / File::write): re-derive")
    # no record for an empty write
    OP = "turmoil_fs::PendingOp"
    k = 0
    for b in sorted(ctx.w.bodies.values(), key=lambda b: b.id):
        if b.crate != "turmoil_fs":
            continue
        for bb, i, s2 in b.all_stmts():
            r = s2["r"]
            if i == "term" or r["k"] != "agg" or r.get("adt") != OP or r.get("variant") != "Write" or b.id.endswith("Clone>::clone"):
                continue
            k += 1
            data = r["ops"][2] if len(r["ops"]) > 2 else None
            da = Slicer(ctx.w).atoms(b, data) if data else set()
            dargs = {a for a in da if a.startswith("arg:")}

            def guarded(fb, blk, argset):
                for sbb, te, fe, o in guards_on(fb, lambda o: o["k"] in ("call", "bin", "not")):
                    at = Slicer(ctx.w).atoms(fb, fb.term(sbb)["d"])
                    oo = o["a"] if o["k"] == "not" else o
                    # an emptiness test: `is_empty()`, or `len()` compared with the constant 0
                    isz = oo["k"] == "call" and re.search(r"::is_empty$", oo["t"]["f"])
                    if oo["k"] == "bin" and oo["op"] in ("Eq", "Ne", "Gt", "Lt", "Ge", "Le"):
                        cs = [op_const(oo["a"]), op_const(oo["b"])]
                        zero = any(c is not None and c.get("v") in (0, 1) for c in cs)
                        lens = any(origin(fb, x)["k"] == "call" and origin(fb, x)["t"]["f"].endswith("::len") or
                                   (origin(fb, x)["k"] == "other" and origin(fb, x)["r"].get("k") in ("len", "ptrmeta")) for x in (oo["a"], oo["b"]))
                        isz = zero and lens
                    if isz and (at & argset) and fb.dominated_by_any(blk, edges=te + fe):
                        return True
                return False
            ok = guarded(b, bb, dargs)
            if not ok:
                callers = [(cb, cbb, t) for cb in ctx.w.bodies.values() for cbb, t in cb.calls(re.compile("^" + re.escape(b.id) + "$"))]
                ok = bool(callers) and all(guarded(cb, cbb, Slicer(ctx.w).atoms(cb, t["args"][3]) if len(t["args"]) > 3 else set()) for cb, cbb, t in callers)
            ctx.inst(R, f"write-record:non-empty:{b.id}", ok, s2["s"], "a Write record is logged only for a non-empty buffer" if ok else
                     f"`{b.id}` logs a PendingOp::Write without testing that the data is non-empty: a zero-length write at an offset past the end "
                     "extends the file (file_len / the flushed image take offset + len of every record), which a POSIX write of 0 bytes never does")
    ctx.inst(R, "write-record:found", k >= 1, "", f"{k} Write record constructions analysed" if k >= 1 else "no PendingOp::Write construction found: re-derive")
    ctx.floor(R, 5)  # 2 cursor stores, 1 record construction, 2 counts


def r5(ctx):
    R = "C10-R5"
    ctx.rule(R, "name-space checks a POSIX tree makes before it creates an entry: (a) a file is created only where no *directory* has the name - in "
                "OpenOptions::open every path to Fs::create_file_with_mode passes a test of Fs::dir_exists on its false edge (File::create / "
                "tokio::fs::write on a directory name otherwise shadows the directory with a file of the same name); (b) create_dir_all skips "
                "only components that exist *as directories*: in the creation loops no true edge of an Fs::file_exists test bypasses the mkdir "
                "(create_dir_all over a regular file otherwise returns Ok and creates nothing); (c) positioned writes and seeks do their "
                "offset arithmetic without a panicking operator: the offset is the caller's (any u64 / i64), and a panic there happens with the "
                "Fs mutex held - the poisoned mutex aborts the process from File::drop")
    SH = "turmoil_fs::shim::std::fs::"
    # (a)
    n = 0
    for fb in ctx.w.family(SH + "OpenOptions::open") if SH + "OpenOptions::open" in ctx.w.bodies else []:
        cr = [(bb, t) for bb, t in fb.calls(re.compile(r"^turmoil_fs::Fs::create_file(_with_mode)?$"))]
        if not cr:
            continue
        te, fe = call_guard_edges(fb, re.compile(r"^turmoil_fs::Fs::dir_exists$"))
        for bb, t in cr:
            n += 1
            # (the test may sit under `!file_exists`, which is tested again before the creation: dominance by the false edge is not
            # required - a dir_exists test whose true edge cannot reach the creation is)
            ok = bool(fe) and (fb.dominated_by_any(bb, edges=fe) or (bool(te) and not any(bb in fb.reachable(e[1]) for e in te)))
            ctx.inst(R, "open:create-refused-on-directory", ok, t["s"], "a file is created only after dir_exists said no" if ok else
                     "OpenOptions::open logs CreateFile without asking whether a directory has that name: File::create(\"/d\") on an existing directory creates a file /d - "
                     "the path reports as a file while read_dir(\"/d\") still lists the directory's children")
    if ctx.strict and not n:
        ctx.bad(R, "open:create-refused-on-directory", "", "no file creation found in OpenOptions::open: re-derive")
    # O_TRUNC is logged whenever it was asked for - also for a file this open has just created: pending data records are keyed by path, and the
    # SetLen(0) is what separates a re-created file from the records of an earlier file of the same name
    for fb in ctx.w.family(SH + "OpenOptions::open") if SH + "OpenOptions::open" in ctx.w.bodies else []:
        for bb, t in fb.calls(re.compile(r"^turmoil_fs::Fs::set_file_len$")):
            dep = set()
            for sbb in control_switches(fb, bb):
                dep |= Slicer(ctx.w, control=True).atoms(fb, fb.term(sbb)["d"])
            bad = "call:turmoil_fs::Fs::file_exists" in dep
            ctx.inst(R, "open:truncate-whenever-asked", not bad, t["s"], "the truncation does not depend on whether the file existed" if not bad else
                     "OpenOptions::open skips the SetLen(0) of truncate(true) for a file it has just created: File::create on a name whose earlier file was removed (removal or old "
                     "writes still pending) merges the old records into the new file at the next data sync - old `AAAAAAAA`, new `BB`, durable result `BBAAAAAA`")
    # (b)
    k = 0
    for fid in (SH + "create_dir_all", SH + "create_dir_all_with_mode"):
        for fb in ctx.w.family(fid) if fid in ctx.w.bodies else []:
            mk = [bb for bb, t in fb.calls(re.compile(r"^turmoil_fs::Fs::mkdir(_with_mode)?$"))]
            if not mk:
                continue
            k += 1
            nxt = [bb for bb, t in fb.calls(re.compile(r"Iterator>::next$|^std::iter::Iterator::next$"))]
            te, fe = call_guard_edges(fb, re.compile(r"^turmoil_fs::Fs::file_exists$"))
            skip = [e for e in te if not any(x in fb.reachable(e[1], stop=nxt) for x in mk)]
            ctx.inst(R, f"create_dir_all:skips-only-directories:{fid.rsplit('::', 1)[1]}", not skip, fb.term(skip[0][0]).get("s", fb.span) if skip else fb.span,
                     "a component is skipped only when it exists as a directory" if not skip else
                     f"the creation loop of `{fid}` skips a component that exists as a regular file: create_dir_all over a file returns Ok(()) and creates nothing "
                     "(std and POSIX fail with `File exists` / `Not a directory`)")
    if ctx.strict and k < 2:
        ctx.bad(R, "create_dir_all:skips-only-directories", "", f"only {k} create_dir_all loop(s) found: re-derive")
    # (c)
    m = 0
    for fid, what in ((SH + "File::write_at_internal", "write_at"), ("<" + SH + "File as std::io::Seek>::seek", "seek")):
        if fid not in ctx.w.bodies:
            continue
        m += 1
        risky = []
        root = ctx.w.bodies[fid]
        for fb in ctx.w.family(fid):
            for bb, i, s2 in fb.all_stmts():
                r = s2["r"]
                if i == "term" or r["k"] != "bin" or r["op"] not in ("AddWithOverflow", "SubWithOverflow", "MulWithOverflow"):
                    continue
                at = Slicer(ctx.w).atoms(fb, r["a"]) | Slicer(ctx.w).atoms(fb, r["b"])
                guest = any(re.match(r"arg:\d+:(offset|pos)@", a) for a in at) or any(a.startswith("field:std::io::SeekFrom") for a in at)
                if guest and r["op"] == "AddWithOverflow":
                    risky.append(s2["s"])
        ctx.inst(R, f"offset-arithmetic:{what}", not risky, risky[0] if risky else root.span, "no panicking addition on the caller's offset" if not risky else
                 f"`{fid}` adds to the caller's offset with the panicking `+`: {what} with an offset near the end of the range panics while the Fs mutex is held, "
                 "the mutex is poisoned and File::drop aborts the process - a POSIX file returns EINVAL / EOVERFLOW")
    if ctx.strict and m < 2:
        ctx.bad(R, "offset-arithmetic", "", f"only {m} of write_at_internal / seek found: re-derive")
    # (d) rename fails when the *destination's* parent does not exist: the parent test of Fs::rename is applied to the second path
    rn = ctx.w.bodies.get("turmoil_fs::Fs::rename")
    if rn:
        pe = [t for bb, t in rn.calls(re.compile(r"^turmoil_fs::Fs::parent_exists$"))]
        on_to = [t for t in pe if any(a.startswith("arg:3:") for a in Slicer(ctx.w).atoms(rn, t["args"][1]))]
        ctx.inst(R, "rename:destination-parent-tested", bool(on_to), pe[0]["s"] if pe else rn.span, "rename tests the parent of the destination" if on_to else
                 "Fs::rename never asks whether the parent of the *destination* exists (the test is missing or applied to the source): a rename into a directory that does not exist "
                 "returns Ok, the source name disappears and the entry is reachable under a path whose parent is not a directory")
    # (e) a chain of pending renames is followed to its origin: the content of c after rename(a, b); rename(b, c) is stored under a. The
    # resolver compares each rename's target with the name *found so far* (a local that is reassigned in the walk), not with the parameter
    rp = ctx.w.bodies.get("turmoil_fs::Fs::resolve_persisted_path")
    if rp:
        chain = False
        # `iter().rev().fold(start, |current, op| ..)`: the accumulator parameter of the folding closure is the name found so far
        folds = {cid for fb in ctx.w.family(rp.id) for bb, t in fb.calls(re.compile(r"Iterator::(fold|try_fold)$|Iterator>::(fold|try_fold)$"))
                 for cid in closure_args(fb, t)}
        for fb in ctx.w.family(rp.id):
            for bb, t in fb.calls(re.compile(r"PartialEq.*::(eq|ne)$")):
                for a in t["args"]:
                    o = deref_origin(fb, a)
                    if fb.id in folds and o["k"] == "place" and not o["p"].get("p") and o["p"]["l"] == 2:
                        chain = True
                    if o["k"] == "place" and not o["p"].get("p") and not (1 <= o["p"]["l"] <= fb.argc):
                        l = o["p"]["l"]
                        ds = [d for d in fb.defs().get(l, []) if d[1] == "term" or "*" not in (d[2]["p"].get("p") or ())]
                        if len(ds) >= 2:
                            chain = True
        ctx.inst(R, "resolve_persisted_path:follows-the-chain", chain, rp.span, "each pending rename is matched against the name found so far" if chain else
                 "Fs::resolve_persisted_path matches pending renames against its parameter only (one hop): after rename(a, b); rename(b, c) with neither synced, the content of c is "
                 "looked up under b - metadata(c).len() is 0 and every front-end reads nothing")
    ctx.floor(R, 7)


def r6(ctx):
    R = "C10-R6"
    ctx.rule(R, "a listing tests the candidate, not the directory: every existence test (file_exists / dir_exists / symlink_exists) inside the "
                "loops of Fs::dir_entries and Fs::dir_has_children is applied to a name drawn from the collection being walked (a persisted key "
                "or a field of the pending record), never to the function's own parameter - a test on the directory itself is constant over the "
                "loop and lets removed entries through; and a flushed record changes the durable image the way the merged view showed it "
                "(shared C07-R14: SetLen resizes, Rename replaces)")
    n = 0
    for fn in ("dir_entries", "dir_has_children"):
        b = ctx.w.bodies.get("turmoil_fs::Fs::" + fn)
        if not b:
            if ctx.strict:
                ctx.bad(R, f"anchor-missing:{fn}", "", "listing function not found")
            continue
        for fb in ctx.w.family(b.id):
            k = 0
            for bb, t in fb.calls(re.compile(r"^turmoil_fs::Fs::(file_exists|dir_exists|symlink_exists)$")):
                at = Slicer(ctx.w).atoms(fb, t["args"][1])
                cand = [a for a in at if not a.startswith(("arg:", "const:"))]
                n += 1
                ctx.inst(R, f"{fn}:{t['f'].rsplit('::', 1)[1]}#{k}", bool(cand), t["s"], "the existence test is applied to the candidate entry" if cand else
                         f"`{t['f'].rsplit('::', 1)[1]}` in Fs::{fn} is applied to the function's own parameter (the directory being listed), not to the candidate entry: "
                         "an entry that was removed (pending RemoveDir / RemoveFile) is still listed - read_dir shows a name for which metadata() returns NotFound")
                k += 1
    ctx.floor(R, 10)
    C07.r14(ctx)


def r7(ctx):
    R = "C10-R7"
    ctx.rule(R, "(a) the tokio front-end's OpenOptions forwards every option to the std shim's setter of the same name (create_new -> create_new, "
                "append -> append): a look-alike setter wired to its neighbour makes the two front-ends disagree on the same request; (b) a seek "
                "that is refused leaves the cursor where it was: in `Seek for File` the cursor is written only on a path that returns Ok")
    n = 0
    for b in ctx.w.find(r"^turmoil_fs::shim::tokio::fs::OpenOptions::\w+$"):
        name = b.id.rsplit("::", 1)[1]
        fw = [t["f"] for fb in ctx.w.family(b.id) for bb, t in fb.calls(re.compile(r"^turmoil_fs::shim::std::fs::OpenOptions::\w+$"))]
        if not fw or name in ("new", "open", "as_inner", "as_inner_mut", "from"):
            continue
        n += 1
        other = sorted({f.rsplit("::", 1)[1] for f in fw if f.rsplit("::", 1)[1] != name})
        ctx.inst(R, f"tokio-open-options:{name}", not other, b.span, f"{name} is forwarded to {name}" if not other else
                 f"tokio OpenOptions::{name} forwards to the std shim's `{other[0]}`: the option asked for is not the one set - the same request gives a different file through the tokio "
                 "front-end than through std (create_new(true) opens an existing file; append(true) writes at offset 0 and overwrites the head of the log)")
    ctx.floor(R, 5)
    sk = ctx.w.bodies.get("<turmoil_fs::shim::std::fs::File as std::io::Seek>::seek")
    if sk:
        errs = [bb for bb, s2 in ret_aggs(sk, "Err")]
        stores = []
        for bb, i, s2 in sk.all_stmts():
            if i == "term" or "*" not in (s2["p"].get("p") or ()):
                continue
            if any(d[1] == "term" and d[2]["k"] == "call" and re.search(r"DerefMut>::deref_mut$|DerefMut::deref_mut$", d[2]["f"]) for d in sk.defs().get(s2["p"]["l"], [])):
                stores.append((bb, s2))
        bad = [(bb, s2) for bb, s2 in stores if any(e in sk.reachable(bb) for e in errs)]
        ctx.inst(R, "seek:cursor-stored-only-on-success", bool(stores) and not bad, bad[0][1]["s"] if bad else sk.span, "the cursor is written after the target was validated" if stores and not bad else
                 ("`Seek for File` writes the cursor on a path that goes on to return an error: a refused seek (negative or overflowing target) leaves the cursor near u64::MAX - the next "
                  "read returns 0 bytes, the next write fails, although POSIX leaves the offset untouched" if bad else "no store to the cursor found in seek: re-derive"))
    elif ctx.strict:
        ctx.bad(R, "anchor-missing:seek", "", "Seek for File not found")



def _frame(sh):
    """frame of reference of a shape: 'A' a position in the file, 'R' a length / a position in the caller's buffer, 'K' a constant,
    'X' two frames mixed without the translating subtraction, 'U' undecided"""
    if isinstance(sh, str):
        if sh.startswith("call:") and sh.endswith("::file_len"):
            return "A"
        return {"abs": "A", "rel": "R"}.get(sh, "K" if sh.startswith("const:") else "U")
    ks = [_frame(k) for k in sh[1:]]
    if "X" in ks:
        return "X"
    nk = [k for k in ks if k != "K"]
    if "U" in nk:
        return "U"
    if not nk:
        return "K"
    if len(nk) == 1:
        return nk[0]
    op = sh[0]
    if len(nk) != 2:
        return "U"
    a, b2 = nk
    if op == "Add" or op in ("saturating_add", "wrapping_add", "checked_add"):
        return "R" if (a, b2) == ("R", "R") else "A" if "R" in (a, b2) else "U"
    if op in ("Sub", "saturating_sub", "wrapping_sub", "checked_sub", "abs_diff"):
        return {"AA": "R", "AR": "A", "RR": "R", "RA": "X"}[a + b2]
    if op in ("min", "max", "clamp"):
        return a if a == b2 else "X"
    return "U"


def r8(ctx):
    R = "C10-R8"
    ctx.rule(R, "a read translates file positions into buffer positions before it uses them: in every Fs function that takes a byte slice and a file "
                "`offset`, each bound of a range indexing that slice is typed in a two-frame discipline - file positions (the `offset` parameter, "
                "Fs::file_len, the length of the persisted content, the `len` / `offset` fields of a pending record) against lengths and buffer "
                "positions (the slice's len, a record's data len); position - position is a length, position + length a position, min / max "
                "need both operands in one frame - and must come out as a buffer position. A pending SetLen / Write / the persisted image "
                "overlaid with a bound in the wrong frame is right for reads at offset 0 and returns discarded or misplaced bytes elsewhere")
    from engine.analysis import flow as _fl
    n = 0
    for b in sorted(ctx.w.bodies.values(), key=lambda b: b.id):
        if b.crate != "turmoil_fs" or b.kind not in ("Fn", "AssocFn"):
            continue
        names = [l.get("n") for l in b.locals[:b.argc + 1]]
        if "offset" not in names:
            continue
        offa = f"arg:{names.index('offset')}:offset@{b.id}"
        sl = Slicer(ctx.w)

        def leaf(body, op, depth, offa=offa, sl=sl):
            p = op_place(op)
            if p is not None and not p.get("p"):
                d = single_def(body, p["l"])
                if d and d[1] == "term" and d[2]["k"] == "call":
                    m = re.search(r"ops::(Sub|Add)>?::(sub|add)$", d[2].get("f", ""))
                    if m:
                        return _fl._node(m.group(1), [expr_shape(body, a, depth + 1) for a in d[2]["args"]])
            at = sl.atoms(body, op)
            if any(a.startswith("binop:") or _fl._ARITH.search(a) or re.search(r"ops::(Sub|Add)>?::", a) for a in at):
                return "in"
            if any(re.search(r"::len$", a) for a in at if a.startswith("call:")):
                if "field:turmoil_fs::FileData::content" in at:
                    return "abs"
                if "field:turmoil_fs::PendingOp::data" in at or any(a.startswith("arg:") and a != offa and not a.startswith("arg:1:self") for a in at):
                    return "rel"
                return "in"
            if "field:turmoil_fs::PendingOp::len" in at or "field:turmoil_fs::PendingOp::offset" in at:
                return "abs"
            if "call:turmoil_fs::Fs::file_len" in at:
                return "abs"
            if offa in at and not any(a.startswith("field:") for a in at):
                return "abs"
            return "in"

        for bb, t in b.calls(re.compile(r"ops::IndexMut>::index_mut$|ops::Index>::index$")):
            rl, rf = receiver_root(b, t["args"][0])
            if rl is None or not (2 <= rl <= b.argc) or names[rl] == "offset" or any(f.startswith("turmoil_fs::") for f in rf):
                continue        # ranges over the caller's buffer only (the receiver chain: `window[a..][..n]`, split_at_mut(..).0)
            bufs = [f"arg:{rl}:{names[rl]}@{b.id}"]
            o = origin(b, t["args"][1])
            r = o.get("r") or {}
            if o["k"] != "agg" or "Range" not in (r.get("adt") or ""):
                continue
            for i, x in enumerate(r.get("ops", [])):
                _fl._SHAPE_LEAF = leaf
                try:
                    sh = expr_shape(b, x)
                finally:
                    _fl._SHAPE_LEAF = None
                fr = _frame(sh)
                if fr in ("U", "K"):
                    ctx.info(R, f"bound:{b.id}#{nth(ctx.__dict__.setdefault('_c10r8', {}), b.id)}", t["s"], f"bound {i} of a range over `{bufs[0].split(':')[2].split('@')[0]}` not typed (shape {shape_str(sh)})")
                    continue
                n += 1
                ok = fr == "R"
                ctx.inst(R, f"buffer-bound:{b.id}#{nth(ctx.__dict__.setdefault('_c10r8', {}), b.id)}", ok, t["s"],
                         f"bound {i} is a buffer position: {shape_str(sh)}" if ok else
                         f"`{b.id}` indexes the caller's buffer with {shape_str(sh)}, which " +
                         ("is a position in the file" if fr == "A" else "combines a position in the file with a buffer position / length without subtracting the read offset") +
                         ": the overlay is right only for a read at offset 0 - a positioned read (read_at, a read after seek, an io_uring read) after a pending "
                         "truncate-then-extend returns the discarded bytes where POSIX returns zeros, and a sync changes what the same read returns")
    # 6 on the reference tree; an equivalent spelling with sub-slices (`window[d..][..len]`, `[0..src.len()]`) keeps 3 - the SetLen
    # and Write overlays cannot be written without at least one bound each
    ctx.inst(R, "buffer-bound:found", n >= 2, "", f"{n} buffer bounds typed" if n >= 2 else f"only {n} typed bounds of the read buffer found (Fs::read_file had 6): re-derive")
    ctx.floor(R, 3)

def run(ctx):
    if ctx.config not in ("all", "fs", "fs_iou"):
        ctx.info("C10-R1", "feature-off", "", "unstable-fs not enabled in this configuration: nothing to analyse")
        return
    r1(ctx)
    r2(ctx)
    r3(ctx)
    r4(ctx)
    r5(ctx)
    r6(ctx)
    r7(ctx)
    r8(ctx)
    C07.r3(ctx)   # R3: syncs move records, never drop or duplicate them
    C07.r1(ctx)   # R3: only sync / crash touch the persisted image
    C04.r6(ctx)   # R4: per-host isolation
