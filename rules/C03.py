"""C03 - nothing sent across an explicitly partitioned direction is ever delivered (structural part)."""
from .common import *
from engine.analysis.typestate import Typestate

DECIDED = ("R1 link-direction typestate: no write can take a direction out of ExplicitPartition except in the explicit repair / "
           "hold API, and nothing reachable from the random failure/repair process can; R2 the send path enqueues only under "
           "Healthy/Hold and every other state returns without queuing; R3 every function that imposes ExplicitPartition purges "
           "the in-flight queue on all paths; R4 the three direction selectors agree on which state cell `from < to` denotes; "
           "R5 the state cells are written only inside `Link`'s own methods.")
NOT_DECIDED = ("correctness of the retain predicate beyond its shape, timing of 'in flight', host-set expansion (for_pairs), "
               "delivery as a run-time event.")
DECIDED += "; R8 exhaustive scan: for_pairs visits every ordered pair (its loops end only when their iterators are exhausted)"
DECIDED += '; R8 also: for_pairs calls back for every ordered pair of distinct hosts (no visited-set)'
DECIDED += '; R2 also: Link::enqueue is the only function that pushes onto Link::sent; R3 also: Link::sent is purged only by a function that partitions a direction'
DECIDED += '; R8 also: the regex host-set resolver scans the whole name table'
ASSUMPTIONS = ["hold/release is outside the property's alphabet (Sim documents the combination with one-way partitions as unsupported)"]

CELLS = {"turmoil::top::Link::state_a_b": "turmoil::top::State", "turmoil::top::Link::state_b_a": "turmoil::top::State"}
EXPLICIT_API = {"turmoil::top::Link::explicit_repair", "turmoil::top::Link::repair_oneway", "turmoil::top::Link::release",
                "turmoil::top::Link::hold", "turmoil::top::Link::new"}
EP = "ExplicitPartition"


def r1(ctx, ts):
    R = "C03-R1"
    ctx.rule(R, "transition relation of Link::state_a_b / state_b_a extracted by enum-typestate dataflow: a write whose prior set "
                "contains ExplicitPartition and whose value is not ExplicitPartition (and not the identity) is allowed only in "
                "the explicit repair/hold API, and never on a path reachable from Link::rand_partition_or_repair")
    n = 0
    cnt = {}
    for b in sorted(ctx.w.bodies.values(), key=lambda b: b.id):
        if b.crate != "turmoil":
            continue
        evs, _ = ts.analyze(b)
        for e in sorted(evs, key=lambda e: (e.bb, e.idx)):
            n += 1
            short = e.cell.rsplit("::", 1)[1]
            k = f"{b.id}:{short}#{nth(cnt, (b.id, short))}"
            leaves = EP in e.prior and not e.identity and e.new != frozenset([EP])
            if not leaves:
                ctx.ok(R, k, e.site, f"{short}: {sorted(e.prior)} -> {'(unchanged)' if e.identity else sorted(e.new)}")
            elif b.id in EXPLICIT_API:
                ctx.ok(R, k, e.site, f"{short}: explicit API may leave ExplicitPartition ({sorted(e.prior)} -> {sorted(e.new)})")
            else:
                ctx.bad(R, k, e.site, f"`{b.id}` overwrites {short} with {sorted(e.new)} while it may hold ExplicitPartition "
                        f"(prior {sorted(e.prior)}): an explicit partition can be lifted outside the explicit repair API")
    # nothing reachable from the random process may leave ExplicitPartition (context-sensitive, inlining depth 3)
    root = ctx.body(R, "turmoil::top::Link::rand_partition_or_repair")
    if root:
        evs = ts.walk(root.id, depth=3)
        cnt2 = {}
        for e in sorted(evs, key=lambda e: (e.body.id, e.bb, e.idx)):
            short = e.cell.rsplit("::", 1)[1]
            chain = "->".join(x.rsplit("::", 1)[1] for x in (e.ctx or ()) + (e.body.id,))
            k = f"random-path:{chain}:{short}#{nth(cnt2, (chain, short))}"
            leaves = EP in e.prior and not e.identity and e.new != frozenset([EP])
            if leaves:
                ctx.bad(R, k, e.site, f"on the random failure/repair path ({chain}) {short} is overwritten with {sorted(e.new)} "
                        f"while it may hold ExplicitPartition (prior {sorted(e.prior)}): the coin flips can lift or replace an explicit partition")
            else:
                ctx.ok(R, k, e.site, f"random path write {short}: {sorted(e.prior)} -> {sorted(e.new)}")
    ctx.floor(R, 14)


def r2(ctx, ts):
    R = "C03-R2"
    ctx.rule(R, "in Link::enqueue the push onto Link::sent is reached only with the direction's state in {Healthy, Hold}; "
                "the state value comes from get_state_for_message(src.ip(), dst.ip())")
    # single writer: nothing is put in flight except through the function that consults the direction's state
    PUSH = re.compile(r"^std::collections::VecDeque::(push_back|push_front|insert|extend|append)$|VecDeque as std::iter::Extend")
    for ob in sorted(ctx.w.bodies.values(), key=lambda x: x.id):
        if ob.crate != "turmoil":
            continue
        for bb, t in ob.calls(PUSH):
            if t["args"] and _on_field(ob, t["args"][0], "turmoil::top::Link::sent"):
                root = ob
                while root.parent and root.parent in ctx.w.bodies:
                    root = ctx.w.bodies[root.parent]
                ok = root.id == "turmoil::top::Link::enqueue"
                ctx.inst(R, f"sent<-{root.id}", ok, t["s"], "messages are put in flight by Link::enqueue only" if ok else
                         f"`{root.id}` pushes onto Link::sent itself, past the state test of Link::enqueue: the message (a RST answer, a reply) is scheduled for delivery "
                         "whatever the state of its direction - it crosses a partition and leaves a held link during the hold")
    b = ctx.body(R, "turmoil::top::Link::enqueue")
    if not b:
        return
    pushes = [(bb, t) for bb, t in b.calls(re.compile(r"^std::collections::VecDeque::(push_back|push_front|insert|extend)$|VecDeque as std::iter::Extend"))
              if _on_field(b, t["args"][0], "turmoil::top::Link::sent")]
    if not pushes:
        ctx.bad(R, "enqueue:no-push", b.span, "no enqueue onto Link::sent found in Link::enqueue")
        return
    # the local holding the state
    gs = list(b.calls("turmoil::top::Link::get_state_for_message"))
    if len(gs) != 1:
        ctx.bad(R, "enqueue:state-source", b.span, "Link::enqueue does not obtain the direction state from get_state_for_message exactly once")
        return
    gbb, gt = gs[0]
    a1 = Slicer(ctx.w).atoms(b, gt["args"][1])
    a2 = Slicer(ctx.w).atoms(b, gt["args"][2])
    src_n = [a for a in a1 if a.startswith("arg:")]
    dst_n = [a for a in a2 if a.startswith("arg:")]
    ok_args = any(":src@" in a for a in src_n) and any(":dst@" in a for a in dst_n) and not any(":dst@" in a for a in src_n)
    ctx.inst(R, "enqueue:state-args", ok_args, gt["s"], "state looked up for (src.ip(), dst.ip())" if ok_args else
             "get_state_for_message is not called with (src, dst) in that order: the wrong direction's state gates the send")
    state_local = gt["d"]["l"]
    # which variants can reach each push: walk switch on discr(state_local)
    ves = variant_edges(b, lambda p: p["l"] == state_local and not p.get("p"))
    if not ves:
        ctx.bad(R, "enqueue:no-match", b.span, "no match on the direction state in Link::enqueue")
        return
    sbb, m, els, adt, _ = ves[0]
    allv = [n for _, n in ctx.w.enum_variants(adt)]
    refine = None
    for pbb, pt in pushes:
        reach = []
        for v in allv:
            e = m.get(v, els)
            if pbb in b.reachable(e[1]) or e[1] == pbb:
                reach.append(v)
        if not set(reach) <= {"Healthy", "Hold"} and refine is None:
            # the verdict travels through an Option (`let Some(status) = self.delivery_status(..) else { return }`, inlined): the arms of
            # the state match assign Some / None to one local, the push sits behind the Some edge of a test of that local
            for osbb, om, oels, oadt, opl in variant_edges(b, lambda p: not p.get("p")):
                if oadt != "std::option::Option" or "Some" not in om or not b.dominated_by_edge(pbb, om["Some"]):
                    continue
                ol = origin(b, {"c": opl})
                L = ol["p"]["l"] if ol["k"] == "place" else opl["l"]
                per = {}
                for v in allv:
                    e = m.get(v, els)
                    got = set()
                    for d in b.defs().get(L, []):
                        if d[1] != "term" and d[2]["r"]["k"] == "agg" and d[2]["r"].get("variant") in ("Some", "None") and (d[0] in b.reachable(e[1])) and b.dominated_by_block(d[0], sbb):
                            # the definition belongs to this arm when removing the arm's edge cuts it off from the other arms' point of view
                            if b.dominated_by_any(d[0], edges=[m.get(v2, els) for v2 in allv if m.get(v2, els) == e]):
                                got.add(d[2]["r"]["variant"])
                    per[v] = got
                if all(per.values()):
                    refine = (om["Some"], per)
                    break
        if refine is not None and b.dominated_by_edge(pbb, refine[0]):
            reach = [v for v in reach if "Some" in refine[1][v]]
        ok = set(reach) <= {"Healthy", "Hold"} and b.dominated_by_block(pbb, sbb)
        ctx.inst(R, "enqueue:push-states", ok, pt["s"],
                 f"push onto Link::sent reachable under states {reach}" + ("" if ok else
                 ": a partitioned direction must drop at send time, not queue"))
    # non-sending states return without touching sent
    for v in allv:
        if v in ("Healthy", "Hold"):
            continue
        e = m.get(v, els)
        r = b.reachable(e[1])
        touched = [bb for bb, t in b.calls() if bb in r and t["args"] and _on_field(b, t["args"][0], "turmoil::top::Link::sent")
                   and not re.search(r"::(len|is_empty|iter)$", t["f"])]
        if refine is not None and refine[1].get(v) == {"None"}:
            touched = [x for x in touched if not b.dominated_by_edge(x, refine[0])]
        ctx.inst(R, f"enqueue:drop:{v}", not touched, b.term(e[1]).get("s", b.span),
                 f"state {v} returns without queuing" if not touched else f"state {v} still reaches a mutation of Link::sent")
    ctx.floor(R, 4)


def _on_field(b, op, field):
    o = deref_origin(b, op)
    if o["k"] == "place":
        l, fields = root_place(b, o["p"])
        return field in fields
    return False


def r3(ctx, ts):
    R = "C03-R3"
    ctx.rule(R, "every function that writes ExplicitPartition to a direction purges Link::sent (clear / retain) on every path "
                "from that write to return")
    purge = re.compile(r"^std::collections::VecDeque::(clear|retain|retain_mut|drain)$")
    n = 0
    for b in sorted(ctx.w.bodies.values(), key=lambda b: b.id):
        if b.crate != "turmoil":
            continue
        wr = []
        for bb, i, s in b.all_stmts():
            c = ts.cell_of(s["p"])
            if not c:
                continue
            r = s["r"]
            v = None
            if r["k"] == "agg":
                v = r.get("variant")
            elif r["k"] == "use":
                o = origin(b, r["o"])
                if o["k"] == "agg":
                    v = o["r"].get("variant")
            if v == EP:
                wr.append((bb, i, s, c))
        pb = [bb for bb, t in b.calls(purge) if _on_field(b, t["args"][0], "turmoil::top::Link::sent")]
        if pb and not wr:
            # the converse: what is in flight is dropped only by a partition. A purge in a function that partitions nothing (repair,
            # release, tick) loses messages on a link that is healthy afterwards
            parts = False
            for bb, i, s in b.all_stmts():
                c = ts.cell_of(s["p"])
                r = s["r"]
                v = r.get("variant") if r["k"] == "agg" else (origin(b, r["o"])["r"].get("variant") if r["k"] == "use" and origin(b, r["o"])["k"] == "agg" else None)
                if c and v in (EP, "RandPartition"):
                    parts = True
            site = b.term(pb[0])["s"]
            ctx.inst(R, f"{b.id}:purge-only-when-partitioning", parts, site, "the purge belongs to a partition" if parts else
                     f"`{b.id}` purges Link::sent although it partitions no direction: messages in flight on a link that stays (or becomes) healthy are lost - "
                     "a repair / release issued while a message is under way drops it")
        if not wr:
            continue
        cnt = {}
        for bb, i, s, c in wr:
            n += 1
            short = c.rsplit("::", 1)[1]
            k = f"{b.id}:{short}#{nth(cnt, short)}"
            if bb in pb:
                ctx.ok(R, k, s["s"], "purge in the same block")
                continue
            leaks = always_passes(b, pb, frm=bb)
            if leaks:
                ctx.bad(R, k, s["s"], f"`{b.id}` sets {short} = ExplicitPartition but a path to return (bb{leaks[0]}) does not clear/retain "
                        "Link::sent: messages in flight in that direction survive the partition")
            else:
                ctx.ok(R, k, s["s"], "every path from the write to return purges Link::sent")
        # the retain predicate must look at the sender (src) and the `from` argument
        for bb, t in b.calls(re.compile(r"VecDeque::retain(_mut)?$")):
            if not _on_field(b, t["args"][0], "turmoil::top::Link::sent"):
                continue
            for cid in closure_args(b, t):
                cb = ctx.w.bodies.get(cid)
                if not cb:
                    continue
                flds = set()
                ups = set()
                for bb2, i2, s2 in cb.all_stmts():
                    pass
                at = set()
                for bb2, t2 in cb.calls():
                    for a in t2["args"]:
                        at |= Slicer(ctx.w).atoms(cb, a)
                cmpc = [t2 for _, t2 in cb.calls(re.compile(r"PartialEq>::(ne|eq)$|^std::cmp::PartialEq::(ne|eq)$"))]
                uses_src = "field:turmoil::top::Sent::src" in at
                from_ok = any(":from@" in a for a in at)
                isne = bool(cmpc) and all(t2["f"].endswith("::ne") for t2 in cmpc)
                ok = uses_src and from_ok and isne and "field:turmoil::top::Sent::dst" not in at
                ctx.inst(R, f"{b.id}:retain-predicate", ok, t["s"],
                         "retain keeps messages whose src != from" if ok else
                         "retain predicate does not have the shape `sent.src.ip() != from` (it must drop exactly the partitioned sender's in-flight messages)")
    ctx.floor(R, 4)


def r4(ctx, ts):
    R = "C03-R4"
    ctx.rule(R, "direction selection agrees in get_state_for_message, partition_oneway, repair_oneway: the true edge of "
                "`lt(first, second)` touches state_a_b, the false edge state_b_a, with (src,dst)/(from,to) in parameter order")
    sibs = ["turmoil::top::Link::get_state_for_message", "turmoil::top::Link::partition_oneway", "turmoil::top::Link::repair_oneway"]
    for fid in sibs:
        b = ctx.body(R, fid)
        if not b:
            continue
        found = False
        for sbb, te, fe, o in guards_on(b, lambda o: o["k"] == "call" and re.search(r"PartialOrd>::(lt|gt|le|ge)$|^std::cmp::PartialOrd::(lt|gt|le|ge)$", o["t"]["f"])):
            t = o["t"]
            opn = re.search(r"(lt|gt|le|ge)$", t["f"]).group(1)
            a0 = deref_origin(b, t["args"][0])
            a1 = deref_origin(b, t["args"][1])
            def argn(x):
                if x["k"] == "place" and x.get("arg"):
                    return x["arg"]
                if x["k"] == "place" and not x["p"].get("p") and 1 <= x["p"]["l"] <= b.argc:
                    return x["p"]["l"]
                return None
            n0, n1 = argn(a0), argn(a1)
            found = True
            ok_order = (opn == "lt" and n0 == 2 and n1 == 3)
            # which cell does each edge touch first
            def touched(edge):
                r = b.reachable(edge[1], stop=[])
                # only blocks dominated by the edge
                cells = set()
                for bb in r:
                    if not b.dominated_by_edge(bb, edge):
                        continue
                    for s in b.stmts(bb):
                        for pl in [s["p"]] + [op_place(x) for x in _rv_ops(s["r"]) if op_place(x)] + ([s["r"]["p"]] if "p" in s["r"] else []):
                            f = place_last_field(pl) if pl else None
                            if f in CELLS:
                                cells.add(f.rsplit("::", 1)[1])
                return cells
            tc = touched(te[0]) if te else set()
            fc = touched(fe[0]) if fe else set()
            ok_cells = tc == {"state_a_b"} and fc == {"state_b_a"}
            ctx.inst(R, f"{fid}:selector", ok_order and ok_cells, t["s"],
                     f"{opn}(arg{n0}, arg{n1}): true->{sorted(tc)}, false->{sorted(fc)}" +
                     ("" if ok_order and ok_cells else " - expected lt(first, second): true->state_a_b, false->state_b_a (sibling selectors disagree)"))
        if not found:
            ctx.bad(R, f"{fid}:selector", b.span, "no `first < second` comparison selects the direction")
    ctx.floor(R, 3)


def _rv_ops(r):
    out = []
    for kk in ("o", "a", "b"):
        if kk in r and isinstance(r[kk], dict):
            out.append(r[kk])
    out += r.get("ops", [])
    return out


def r5(ctx, ts):
    R = "C03-R5"
    ctx.rule(R, "Link::state_a_b / state_b_a are written only by methods of Link (no outside writer can bypass the typestate)")
    writers = set()
    for b in ctx.w.bodies.values():
        for bb, i, s in b.all_stmts():
            if ts.cell_of(s["p"]):
                writers.add(b.id)
            r = s["r"]
            if r["k"] in ("ref", "addr") and r.get("bk") in ("mut", "Mut") and place_last_field(r["p"]) in CELLS and ts.cell_of(r["p"]):
                writers.add(b.id + " (&mut)")
    def hands_out(fid):
        f = ctx.w.fns.get(fid)
        if not f:
            return True
        t = ctx.w.tys[f["crate"]][f["output"]]
        return t.get("k") == "ref" and bool(t.get("mut")) and "Restricted" not in str(f.get("vis")) and "top)" not in str(f.get("vis"))
    for wtr in sorted(writers):
        fid = wtr.replace(" (&mut)", "")
        # a `&mut` borrow of a cell inside a method of Link is a write by Link itself unless the method hands the reference out
        ok = wtr.startswith("turmoil::top::Link::") and ("(&mut)" not in wtr or not hands_out(fid))
        ctx.inst(R, f"writer:{wtr}", ok, "", "writer inside impl Link" if ok else f"`{wtr}` writes / mutably borrows a link state cell outside impl Link")
    ctx.floor(R, 6)


LINK_OPS = {"explicit_partition", "partition_oneway", "explicit_repair", "repair_oneway", "hold", "release"}
WIRING = {
    "partition": ("partition_many", "partition", "explicit_partition"),
    "partition_oneway": ("partition_oneway_many", "partition_oneway", "partition_oneway"),
    "repair": ("repair_many", "repair", "explicit_repair"),
    "repair_oneway": ("repair_oneway_many", "repair_oneway", "repair_oneway"),
    "hold": ("hold_many", "hold", "hold"),
    "release": ("release_many", "release", "release"),
}


def r6(ctx, ops=("partition", "partition_oneway", "repair", "repair_oneway"), R="C03-R6"):
    ctx.rule(R, "API wiring (sibling agreement across layers): for each control operation the free function turmoil::<op>, Sim::<op>, "
                "World::<op>_many, World::<op> and Topology::<op> reach exactly one Link-level operation - their own - and pass the two host "
                "arguments on in parameter order (a one-way operation applied in the wrong direction or a two-way one in its place breaks "
                "the partition semantics although every layer looks fine alone)")
    for op in ops:
        many, topo, link = WIRING[op]
        chain = [f"turmoil::{op}", f"turmoil::sim::Sim::{op}", f"turmoil::world::World::{many}", f"turmoil::world::World::{op}", f"turmoil::top::Topology::{topo}"]
        for fid in chain:
            b = ctx.body(R, fid)
            if not b:
                continue
            reach = reach_bodies(ctx.w, [fid])
            got = sorted(x.rsplit("::", 1)[1] for x in reach if x.startswith("turmoil::top::Link::") and x.rsplit("::", 1)[1] in LINK_OPS)
            ok = got == [link]
            ctx.inst(R, f"{fid}:reaches-{link}", ok, b.span, f"reaches exactly Link::{link}" if ok else
                     f"`{fid}` reaches Link::{got} instead of exactly Link::{link}: the operation requested through this entry point is not the one performed")
            # parameter order at every call into the next layer
            nxt = set(chain) | {f"turmoil::top::Link::{link}", "turmoil::for_pairs", "turmoil::top::Pair::new"}
            for fb in ctx.w.family(fid):
                for bb, t in fb.calls():
                    if t["f"] not in nxt or t["f"] == fb.id or len(t["args"]) < 2:
                        continue
                    pair = t["args"][0:2] if t["f"].endswith("for_pairs") else t["args"][-2:]
                    a = [Slicer(ctx.w).atoms(fb, x) for x in pair]
                    good = False
                    for F in {fb.id, fid}:
                        Fb = ctx.w.bodies.get(F)
                        if not Fb:
                            continue
                        n = Fb.argc
                        pa = [sorted(int(z.split(":")[1]) for z in at if z.startswith("arg:") and z.endswith("@" + F)) for at in a]
                        if (n - 1 in pa[0] and n not in pa[0]) and (n in pa[1] and n - 1 not in pa[1]):
                            good = True
                    if not good:
                        # a shared private helper `on_world_pairs(a, b, f)`: the two host sets are its first two parameters (the third is
                        # the operation). Whatever the owner, each forwarded argument comes from one parameter and the order is kept
                        owners = {z.rsplit("@", 1)[1] for at in a for z in at if z.startswith("arg:") and "{closure" not in z.rsplit("@", 1)[1]}
                        for F in owners:
                            pa = [sorted({int(z.split(":")[1]) for z in at if z.startswith("arg:") and z.endswith("@" + F)}) for at in a]
                            if len(pa[0]) == 1 and len(pa[1]) == 1 and pa[0][0] < pa[1][0] and len(owners) == 1:
                                good = True
                    ctx.inst(R, f"{fb.id}->{t['f'].rsplit('::', 1)[1]}:argument-order", good, t["s"], "host arguments forwarded in order" if good else
                             f"`{fb.id}` forwards its two host arguments to `{t['f']}` swapped or mixed: the direction of the operation is reversed")


TWO_WAY = {"hold": "Hold", "release": "Healthy", "explicit_partition": "ExplicitPartition", "explicit_repair": "Healthy"}


def r7(ctx, ops=("explicit_partition", "explicit_repair"), R="C03-R7"):
    ctx.rule(R, "two-way link operations are symmetric: each of hold / release / explicit_partition / explicit_repair writes its variant to "
                "BOTH state_a_b and state_b_a on every path (a copy-paste slip that writes one cell twice leaves the reverse direction in its old state)")
    ts = Typestate(ctx.w, CELLS)
    for op in ops:
        b = ctx.body(R, "turmoil::top::Link::" + op)
        if not b:
            continue
        evs, _ = ts.analyze(b)
        want = TWO_WAY[op]
        for cell in CELLS:
            short = cell.rsplit("::", 1)[1]
            wb = [e.bb for e in evs if e.cell == cell and e.new == frozenset([want])]
            ok = bool(wb) and not always_passes(b, wb)
            ctx.inst(R, f"{op}:{short}", ok, b.span, f"{op} sets {short} = {want} on every path" if ok else
                     f"Link::{op} does not set {short} = {want} on every path: the operation takes effect in one direction only")


def run(ctx):
    scan_rule(ctx, "C03")
    ts = Typestate(ctx.w, CELLS)
    r1(ctx, ts)
    r2(ctx, ts)
    r3(ctx, ts)
    r4(ctx, ts)
    r5(ctx, ts)
    r6(ctx)
    ctx.floor("C03-R6", 30)
    r7(ctx)
    ctx.floor("C03-R7", 4)
