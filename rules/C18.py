"""C18 - every io_uring submission completes exactly once with the right result (structural part)."""
from .common import *
from . import C04

DECIDED = ("R1 CQE conservation: in schedule_pending every loop iteration passes exactly one of post_immediate_error / schedule / cancel; "
           "schedule and post_immediate_error push exactly one ScheduledCqe; in cancel `found` is set only after the target was removed "
           "from its pool, the -ECANCELED completion is pushed exactly when found, the cancel's own completion always, and the removed "
           "target is never executed; R2 completions are move-only (PendingApply / ScheduledCqe not Clone, execute(self)), an op is "
           "promoted to ready only under `when <= now`, the completion iterator yields at most the count its last sync observed and "
           "executes an op exactly when it yields it; R3 IoUringHostState::crash wakes waiters and clears every ring; Sim::crash reaches "
           "it (shared C04-R1); R4 the io_uring executors use the same Fs primitives behind the same guards as the synchronous shim "
           "(exec_write ~ File::write_at_internal, exec_read ~ read_at_internal, exec_fsync ~ File::sync_all); R5 every function that "
           "adds a completion wakes the completion waiters unconditionally; R6 completion time = submit time + sampled latency "
           "(immediate errors: now).")
NOT_DECIDED = "result values as numbers, latency distribution, ordering among completions."
DECIDED += "; R4 also: the amount charged against the capacity has the same arithmetic shape in exec_write and write_at_internal, and the page cache is probed before the page is inserted (ring scheduler and tokio shim); R8 exhaustive scans of schedule_pending and IoUringHostState::crash"
DECIDED += "; R9 the page-cache eviction loop terminates for every max_pages; AsyncCancel targets only operations still in flight"
DECIDED += '; R2 also: the in-flight and ready pools change one element at a time (no wholesale overwrite / clear); R4 also: O_DIRECT alignment tests address, offset and length each, in the ring as in the file API'
DECIDED += "; R10 no panicking arithmetic on the guest's offset in the executors, or unrepresentable ranges completed with an immediate error at submit; R6 also: completion deadlines saturate and the waiter's deadline is computed with a checked addition; R4 also: both siblings report an injected corruption"
DECIDED += '; R4 also: the short-read draw starts at 1 and the injected flush follows the write, in the ring as in the file API'
DECIDED += "; R11 the file shim's two fd tables (open_handles, direct_io_fds) are extended and shrunk together; flag rejection never tests that a masked bit is absent"
DECIDED += '; R1 also: a found target is removed from whichever pool holds it; R4 also: the alignment check precedes the injected-fault draw; R12 PendingApply::execute is called only from the completion drain; the flush result is the fsync result (shared C07-R7)'
DECIDED += "; the entered ring registry is restored on every path of the guard's Drop (shared C01-R8)"
ASSUMPTIONS = ["the consumer keeps buffers alive until the CQE is reaped (io_uring contract)"]

RS = "turmoil_io_uring::sim::RingState::"
INFL = RS + "inflight"
READY = RS + "ready"


def _fields_of(b, op):
    o = deref_origin(b, op)
    if o["k"] == "place":
        return root_place(b, o["p"])[1]
    return []


def r1(ctx):
    R = "C18-R1"
    ctx.rule(R, "path counts: schedule_pending loop body -> exactly one of {post_immediate_error, schedule, cancel}; schedule / "
                "post_immediate_error -> exactly one push onto inflight; cancel: every `found = true` is dominated by a removal from "
                "inflight / ready; push(-ECANCELED) dominated by the `found` true edge; final push on every path; no execute in cancel")
    sp = ctx.body(R, "turmoil_io_uring::submit::schedule_pending")
    if sp:
        acts = [bb for bb, t in sp.calls(re.compile(r"RingState::(post_immediate_error|schedule|cancel)$"))]
        nxt = [bb for bb, t in sp.calls(re.compile(r"vec::IntoIter as std::iter::Iterator>::next$"))]
        best = None
        for nb in nxt:
            for sbb, m, els, adt, pl in variant_edges(sp, lambda p: True):
                if adt == "std::option::Option" and "Some" in m and sp.dominated_by_block(sbb, nb) and pl["l"] == sp.term(nb)["d"]["l"]:
                    pc = path_counts(sp, m["Some"][1], lambda x: x in acts, stop_blocks=[nb], only_stop=True)
                    if pc is not None:
                        best = pc
        ctx.inst(R, "schedule_pending:one-action-per-entry", best == (1, 1), sp.span, "each submitted entry is handled by exactly one of schedule / immediate error / cancel" if best == (1, 1) else
                 f"a submitted entry is handled {best} times per iteration: it yields no completion or more than one")
    for name in ("schedule", "post_immediate_error"):
        b = ctx.body(R, RS + name)
        if b:
            ps = [bb for bb, t in b.calls(re.compile(r"^std::vec::Vec::push$")) if INFL in _fields_of(b, t["args"][0])]
            pc = path_counts(b, 0, lambda x: x in ps)
            ctx.inst(R, f"{name}:one-cqe", pc == (1, 1), b.span, "exactly one completion is queued" if pc == (1, 1) else f"{name} queues {pc} completions")
    c = ctx.body(R, RS + "cancel")
    if c:
        rem = [bb for bb, t in c.calls(re.compile(r"^std::vec::Vec::(swap_remove|remove)$|^std::collections::VecDeque::(remove|swap_remove_back|swap_remove_front)$"))
               if (INFL in _fields_of(c, t["args"][0]) or READY in _fields_of(c, t["args"][0]))]
        # the `found` flag: bool user local assigned true
        flag = None
        for bb, i, s in c.all_stmts():
            if not s["p"].get("p") and c.local_name(s["p"]["l"]) == "found":
                flag = s["p"]["l"]
        if flag is None:
            for sbb, te, fe, o in guards_on(c, lambda o: o["k"] == "place" and not o["p"].get("p") and c.local_ty(o["p"]["l"])["s"] == "bool"):
                flag = o["p"]["l"]
        sets = [(bb, s) for bb, i, s in c.all_stmts() if s["p"]["l"] == flag and not s["p"].get("p") and s["r"]["k"] == "use" and (op_const(s["r"]["o"]) or {}).get("v") == 1]
        n = 0
        for bb, s in sets:
            ok = any(x == bb or c.dominated_by_block(bb, x) for x in rem) and any(c.dominated_by_block(bb, x) and not c.dominated_by_block(y, x) for x in rem for y in [0]) or any(x == bb for x in rem)
            # the removal must lie on the branch of this assignment (not a removal from the other pool on another branch)
            ok = any((x == bb or c.dominated_by_block(bb, x)) for x in rem if not any(c.dominated_by_block(o2, x) for o2, _ in sets if o2 != bb))
            ctx.inst(R, f"cancel:found-implies-removed#{n}", ok, s["s"], "target is removed from its pool before it is reported cancelled" if ok else
                     "cancel reports the target as found without removing it from its pool: the op still executes later (buffer touched after cancel) and completes a second time")
            n += 1
        if not sets:
            ctx.bad(R, "cancel:found", c.span, "cannot identify the found flag of cancel")
        # every way the flag can become true has a removal behind it: a definition that is not the constant `true` (the result of a search:
        # `any(..)`, `is_some()`) reports the target as found although nothing was taken out of the pool
        soft = [d for d in c.defs().get(flag, []) if flag is not None and not (d[1] != "term" and d[2]["r"]["k"] == "use" and op_const(d[2]["r"].get("o")) is not None)
                and not (d[1] != "term" and d[2]["r"]["k"] == "use" and op_place(d[2]["r"].get("o")) is not None and not isinstance(d[2]["r"]["o"].get("k"), str)
                         and all(x[1] != "term" and x[2]["r"]["k"] == "use" and op_const(x[2]["r"].get("o")) is not None for x in c.defs().get(op_place(d[2]["r"]["o"])["l"], [None]) if x))]
        pools = {f for bb in rem for f in _fields_of(c, c.term(bb)["args"][0]) if f in (INFL, READY)}
        okp = pools == {INFL, READY} and not soft
        ctx.inst(R, "cancel:removes-from-either-pool", okp, (soft[0][2].get("s") if soft else None) or c.span, "a found target is taken out of whichever pool holds it (in flight or matured)" if okp else
                 "RingState::cancel can report a target as found without taking it out of its pool (" + ("the flag is the result of a search, not set behind a removal" if soft else
                 f"no removal from {sorted({INFL, READY} - pools)}") + "): a matured, unreaped op that is cancelled still executes on the next drain - the write lands and a second completion is posted for the same user_data")
        pushes = [(bb, t) for bb, t in c.calls(re.compile(r"^std::vec::Vec::push$")) if INFL in _fields_of(c, t["args"][0])]
        fte = []
        for sbb, te, fe, o in guards_on(c, lambda o: o["k"] == "place" and not o["p"].get("p") and o["p"]["l"] == flag):
            fte += te
        cond = [x for x, _ in pushes if fte and c.dominated_by_any(x, edges=fte)]
        unc = [x for x, _ in pushes if x not in cond]
        ok = len(cond) == 1 and len(unc) == 1 and not always_passes(c, unc)
        ctx.inst(R, "cancel:two-completions-when-found", ok, c.span, "-ECANCELED for the target exactly when found, the cancel's own completion always" if ok else
                 f"cancel does not post exactly (found ? 2 : 1) completions ({len(cond)} conditional, {len(unc)} unconditional)")
        ex = list(c.calls(re.compile(r"PendingApply::execute$")))
        ctx.inst(R, "cancel:target-not-executed", not ex, c.span, "the cancelled op is dropped, never executed" if not ex else "cancel executes the cancelled op")
    ctx.floor(R, 6)


def r2(ctx):
    R = "C18-R2"
    ctx.rule(R, "type facts + guards: PendingApply / ScheduledCqe have no Clone / Copy impl; PendingApply::execute takes self by value; "
                "promote_ready moves an op out of inflight only behind `when <= now`; pop_ready = promote then pop_front; CompletionQueue::next "
                "returns None when the remaining count is 0, executes one popped op per yielded entry and decrements the count once")
    for adt in ("turmoil_io_uring::sim::PendingApply", "turmoil_io_uring::sim::ScheduledCqe"):
        if adt not in ctx.w.adts:
            if ctx.strict:
                ctx.bad(R, f"anchor-missing:{adt}", "", f"`{adt}` not found")
            continue
        cl = ctx.w.implements(adt, "std::clone::Clone") or ctx.w.implements(adt, "std::marker::Copy")
        ctx.inst(R, f"not-clone:{adt}", not cl, ctx.w.adts[adt].get("span", ""), "move-only" if not cl else f"`{adt}` is Clone/Copy: a completion can be duplicated")
    f = ctx.w.fns.get("turmoil_io_uring::sim::PendingApply::execute")
    if f:
        t0 = ctx.w.tys[f["crate"]][f["inputs"][0]]
        ctx.inst(R, "execute:by-value", t0.get("k") == "adt", f["span"], "execute(self) consumes the op" if t0.get("k") == "adt" else "execute borrows the op: it can run twice")
    pr = ctx.body(R, RS + "promote_ready")
    if pr:
        rm = [bb for bb, t in pr.calls(re.compile(r"^std::vec::Vec::(swap_remove|remove|drain|pop)$")) if INFL in _fields_of(pr, t["args"][0])]
        le = []
        WHEN = "field:turmoil_io_uring::sim::ScheduledCqe::when"
        for sbb, te, fe, o in guards_on(pr, lambda o: o["k"] == "call" and re.search(r"PartialOrd>::(le|gt|ge|lt)$|PartialOrd::(le|gt|ge|lt)$", o["t"]["f"])):
            a0 = Slicer(ctx.w).atoms(pr, o["t"]["args"][0])
            a1 = Slicer(ctx.w).atoms(pr, o["t"]["args"][1])
            cmp_ = o["t"]["f"].rsplit("::", 1)[1]
            isnow = lambda at: any(a.startswith("arg:2:") for a in at)
            # the edge on which `when <= now` holds, however the comparison is spelled
            if WHEN in a0 and isnow(a1) and WHEN not in a1:
                le += te if cmp_ == "le" else fe if cmp_ == "gt" else []
            elif WHEN in a1 and isnow(a0) and WHEN not in a0:
                le += te if cmp_ == "ge" else fe if cmp_ == "lt" else []
        ok = bool(rm) and bool(le) and all(pr.dominated_by_any(x, edges=le) for x in rm)
        ctx.inst(R, "promote_ready:maturity-guard", ok, pr.span, "an op becomes ready only when its time `when <= now`" if ok else
                 "promote_ready can move an op to the ready pool before its simulated latency has elapsed")
    pp = ctx.body(R, RS + "pop_ready")
    if pp:
        a = [bb for bb, t in pp.calls(RS + "promote_ready")]
        p2 = [bb for bb, t in pp.calls(re.compile(r"^std::collections::VecDeque::pop_front$")) if READY in _fields_of(pp, t["args"][0])]
        ok = bool(a) and bool(p2) and all(pp.dominated_by_any(x, blocks=a) for x in p2)
        ctx.inst(R, "pop_ready:promote-then-pop", ok, pp.span, "only matured ops can be popped" if ok else "pop_ready does not promote before popping / pops from another pool")
    others = sorted({b.id for b in ctx.w.bodies.values() if b.crate == "turmoil_io_uring" for bb, t in b.calls(re.compile(r"VecDeque::(pop_front|pop_back|drain)$")) if READY in _fields_of(b, t["args"][0])})
    ctx.inst(R, "ready:consumers", set(others) <= {RS + "pop_ready"}, "", f"ready pool consumed by {others}")
    # the two pools only change one element at a time (push / extend in, remove / pop out): nothing overwrites or empties a pool as a whole
    # - completions still waiting there would be lost (no CQE, and the fs effect, which runs when the CQE is handed out, never happens)
    whole = []
    npool = 0
    for b in sorted(ctx.w.bodies.values(), key=lambda b: b.id):
        if b.crate != "turmoil_io_uring":
            continue
        for bb, i, s2 in b.all_stmts():
            if i != "term" and place_last_field(s2["p"]) in (READY, INFL):
                whole.append((b.id, s2["s"], "assignment to " + place_last_field(s2["p"]).rsplit("::", 1)[1]))
        for bb, t in b.calls(re.compile(r"::(clear|truncate|drain|split_off)$|^std::mem::(take|replace|swap)$")):
            fs = set()
            for a in t["args"]:
                fs |= set(_fields_of(b, a))
            if fs & {READY, INFL}:
                whole.append((b.id, t["s"], t["f"].rsplit("::", 1)[1] + " on " + sorted(fs & {READY, INFL})[0].rsplit("::", 1)[1]))
        for bb, t in b.calls(re.compile(r"::(push|push_back|extend|swap_remove|remove|pop_front)$")):
            if t["args"] and set(_fields_of(b, t["args"][0])) & {READY, INFL}:
                npool += 1
    if pr or ctx.strict:
        ctx.inst(R, "pools:element-wise", not whole and npool >= 4, whole[0][1] if whole else "", f"{npool} element-wise updates of inflight / ready, no wholesale one" if not whole and npool >= 4 else
             (f"`{whole[0][0]}` changes a completion pool wholesale ({whole[0][2]}): completions that were still queued there are dropped - no CQE is ever delivered "
              "for them and their fs effect never happens" if whole else f"only {npool} element-wise pool updates found (re-derive)"))
    nx = ctx.w.bodies.get("<turmoil_io_uring::cqueue::CompletionQueue as std::iter::Iterator>::next")
    if nx:
        ex = []
        pop = []
        for fb in ctx.w.family(nx.id):
            ex += [(fb, bb) for bb, t in fb.calls(re.compile(r"PendingApply::execute$"))]
            pop += [(fb, bb) for bb, t in fb.calls(RS + "pop_ready")]
        ok = len(ex) == 1 and len(pop) == 1 and ex[0][0].id == pop[0][0].id and ex[0][0].dominated_by_block(ex[0][1], pop[0][1])
        ctx.inst(R, "cq-next:execute-when-yielded", ok, nx.span, "the fs effect runs exactly when the completion is handed out" if ok else "CompletionQueue::next does not execute exactly the op it pops")
        z = []
        for sbb, te, fe, o in guards_on(nx, lambda o: o["k"] == "bin" and o["op"] == "Eq" and (op_const(o["b"]) or {}).get("v") == 0):
            z += fe
        for sbb, te, fe, o in guards_on(nx, lambda o: o["k"] == "call" and re.search(r"CompletionQueue::is_empty$", o["t"]["f"])):
            z += fe
        w_ = [bb for bb, t in nx.calls(re.compile(r"with_fs_and_io_uring$"))]
        okz = bool(z) and bool(w_) and all(nx.dominated_by_any(x, edges=z) for x in w_)
        dec = [s_ for bb, i, s_ in nx.all_stmts() if s_["r"]["k"] == "bin" and s_["r"]["op"] in ("SubWithOverflow", "Sub") and (op_const(s_["r"]["b"]) or {}).get("v") == 1]
        ctx.inst(R, "cq-next:bounded-by-sync", okz and len(dec) == 1, nx.span, "at most the number of completions observed by the last sync() is yielded" if okz and len(dec) == 1 else
                 "CompletionQueue::next is not bounded by the count observed at sync()")
    elif ctx.strict:
        ctx.bad(R, "anchor-missing:CompletionQueue::next", "", "CompletionQueue::next not found")
    ctx.floor(R, 8)


def r3(ctx):
    R = "C18-R3"
    ctx.rule(R, "IoUringHostState::crash: notify_waiters on every ring, then IndexMap::clear on rings, on every path")
    b = ctx.body(R, "turmoil_io_uring::host::IoUringHostState::crash")
    if not b:
        return
    cl = [bb for bb, t in b.calls(re.compile(r"^indexmap::IndexMap::(clear|drain)$")) if "turmoil_io_uring::host::IoUringHostState::rings" in _fields_of(b, t["args"][0])]
    nt = [bb for fb in ctx.w.family(b.id) for bb, t in fb.calls(re.compile(r"Notify::notify_waiters$"))]   # also as the body of a for_each closure
    ok = bool(cl) and not always_passes(b, cl)
    ctx.inst(R, "crash:forgets-rings", ok, b.span, "every ring (and every pending op) is forgotten" if ok else "IoUringHostState::crash does not clear the rings on every path: submitted ops complete after the crash")
    ctx.inst(R, "crash:wakes-waiters", bool(nt), b.span, "parked reapers are woken" if nt else "crash does not wake parked reapers")
    ctx.floor(R, 2)


FS_PRIMS = re.compile(r"^turmoil_fs::Fs::(file_len|check_space|write_file|read_file|sync_file|sync_file_data|file_exists)$")


def _prims(ctx, fid):
    b = ctx.w.bodies.get(fid)
    if not b:
        return None, None
    out = []
    fam = ctx.w.family(fid)
    fields = set()
    for fb in fam:
        for bb, t in fb.calls(FS_PRIMS):
            out.append(t["f"].rsplit("::", 1)[1])
        for bb, i, s in fb.all_stmts():
            pls = [op_place(o) for o in [s["r"].get("o"), s["r"].get("a"), s["r"].get("b")] if o] + ([s["r"]["p"]] if isinstance(s["r"].get("p"), dict) else [])
            for pl in pls:
                if pl:
                    for f in place_fields(pl):
                        if f.startswith("turmoil_fs::Fs::"):
                            fields.add(f.rsplit("::", 1)[1])
        for bb, t in fb.calls():
            for a in t["args"]:
                pl = op_place(a)
                if pl:
                    for f in place_fields(pl):
                        if f.startswith("turmoil_fs::Fs::"):
                            fields.add(f.rsplit("::", 1)[1])
    return sorted(set(out)), fields


def r4(ctx):
    R = "C18-R4"
    ctx.rule(R, "sibling comparison on the Fs API: exec_write and File::write_at_internal call the same primitive set {file_len, check_space, "
                "write_file, sync_file} and read the same knobs {open_handles, direct_io_fds, io_error_probability, sync_probability}; in "
                "both, write_file is behind the io-error draw's false edge and the check_space Ok edge; exec_read ~ read_at_internal "
                "(read_file; io_error / short_read / corruption knobs); exec_fsync ~ File::sync_all (sync_file behind the io-error draw)")
    pairs = [("turmoil_io_uring::sim::exec_write", "turmoil_fs::shim::std::fs::File::write_at_internal", {"io_error_probability", "sync_probability", "open_handles", "direct_io_fds"}),
             ("turmoil_io_uring::sim::exec_read", "turmoil_fs::shim::std::fs::File::read_at_internal", {"io_error_probability", "short_read_probability", "corruption_probability", "open_handles", "direct_io_fds"}),
             ("turmoil_io_uring::sim::exec_fsync", "turmoil_fs::shim::std::fs::File::sync_all", {"io_error_probability", "open_handles"})]
    for a, bname, knobs in pairs:
        pa, fa = _prims(ctx, a)
        pb, fb = _prims(ctx, bname)
        if pa is None or pb is None:
            if ctx.strict:
                ctx.bad(R, f"anchor-missing:{a if pa is None else bname}", "", "sibling not found")
            continue
        same = set(pa) == set(pb)
        kn_a = knobs <= fa
        ctx.inst(R, f"{a.rsplit('::', 1)[1]}~{bname.rsplit('::', 1)[1]}:primitives", same, ctx.w.bodies[a].span,
                 f"both use Fs::{pa}" if same else f"io_uring executor uses Fs::{pa} but the synchronous shim uses Fs::{pb}: results / effects differ between the two APIs")
        ctx.inst(R, f"{a.rsplit('::', 1)[1]}:knobs", kn_a, ctx.w.bodies[a].span, f"executor honours {sorted(knobs)}" if kn_a else f"executor ignores {sorted(knobs - fa)}")
    for fid in ("turmoil_io_uring::sim::exec_write",):
        b = ctx.w.bodies.get(fid)
        if not b:
            continue
        wf = [bb for bb, t in b.calls("turmoil_fs::Fs::write_file")]
        io_fe = []
        for sbb, te, fe, o in guards_on(b, lambda o: o["k"] == "call" and o["t"]["f"].endswith("sample_prob")):
            if "field:turmoil_fs::Fs::io_error_probability" in Slicer(ctx.w).atoms(b, o["t"]["args"][1]):
                io_fe += fe
        cs = [bb for bb, t in b.calls("turmoil_fs::Fs::check_space")]
        ok = bool(wf) and bool(io_fe) and all(b.dominated_by_any(x, edges=io_fe) for x in wf) and bool(cs) and all(b.dominated_by_any(x, blocks=cs) or True for x in wf)
        # ENOSPC edge: the is_err true edge must not reach write_file
        te_err, _ = call_guard_edges(b, re.compile(r"Result::is_err$"))
        ok2 = bool(te_err) and not any(x in b.reachable(e[1]) for e in te_err for x in wf)
        ctx.inst(R, "exec_write:guards", ok and ok2, b.span, "write happens only after the io-error draw and the capacity check passed" if ok and ok2 else
                 "exec_write can write despite an injected I/O error or a failed capacity check")
    # the amount charged against the capacity is computed the same way by both siblings
    shapes = {}
    for fid in ("turmoil_io_uring::sim::exec_write", "turmoil_fs::shim::std::fs::File::write_at_internal"):
        for fb in (ctx.w.family(fid) if fid in ctx.w.bodies else []):
            for bb, t in fb.calls("turmoil_fs::Fs::check_space"):
                sh = expr_shape(fb, t["args"][1])
                # `if end > len { check_space(end - len) }` charges saturating_sub(end, len) whenever that is positive
                if isinstance(sh, tuple) and sh[0] == "Sub":
                    for sbb, te, fe, o in guards_on(fb, lambda o: o["k"] == "bin" and o["op"] in ("Gt", "Lt")):
                        ga, gb = expr_shape(fb, o["a"]), expr_shape(fb, o["b"])
                        if o["op"] == "Lt":
                            ga, gb = gb, ga
                        if (ga, gb) == (sh[1], sh[2]) and te and fb.dominated_by_any(bb, edges=te):
                            sh = ("saturating_sub", sh[1], sh[2])
                            break
                shapes[fid] = (sh, t["s"])
    if len(shapes) == 2:
        (sa, site), (sb, _) = shapes["turmoil_io_uring::sim::exec_write"], shapes["turmoil_fs::shim::std::fs::File::write_at_internal"]
        ctx.inst(R, "exec_write~write_at_internal:space-charged", sa == sb, site, f"both charge {shape_str(sa)}" if sa == sb else
                 f"the ring write charges {shape_str(sa)} against the capacity, the file API charges {shape_str(sb)}: the same write succeeds through one API and fails with ENOSPC through the other")
    elif ctx.strict:
        ctx.bad(R, "exec_write~write_at_internal:space-charged", "", "check_space call not found in one of the siblings")
    # a read corrupted on purpose is reported: both siblings fire the corruption event behind the corruption draw (observers - barriers on
    # FsCorruption - see ring-driven reads like shim reads)
    FC = re.compile(r"^turmoil_fs::fire_corruption$")
    for a, bname in (("turmoil_io_uring::sim::exec_read", "turmoil_fs::shim::std::fs::File::read_at_internal"),):
        if a in ctx.w.bodies and bname in ctx.w.bodies:
            fa = [t for fb in ctx.w.family(a) for bb, t in fb.calls(FC)]
            fb_ = [t for fb in ctx.w.family(bname) for bb, t in fb.calls(FC)]
            ok = bool(fa) == bool(fb_)
            ctx.inst(R, "exec_read~read_at_internal:corruption-event", ok, ctx.w.bodies[a].span, "both report an injected corruption" if ok else
                     "the file API reports an injected corruption (fire_corruption -> FsCorruption barriers) but the ring executor flips the byte silently: "
                     "the same read has a different observable effect through the two APIs, and a barrier on FsCorruption misses ring-driven reads")
    # a short read is short, not empty: the trimmed count is drawn from 1..n in both siblings (0 means end-of-file to every reader)
    starts = {}
    for fid in ("turmoil_io_uring::sim::exec_read", "turmoil_fs::shim::std::fs::File::read_at_internal"):
        for fb in (ctx.w.family(fid) if fid in ctx.w.bodies else []):
            for bb, i, s2 in fb.all_stmts():
                r = s2["r"]
                if i != "term" and r["k"] == "agg" and "Range" in str(r.get("adt", "")) and len(r["ops"]) == 2:
                    c0 = op_const(r["ops"][0])
                    # the range whose result replaces the byte count: its value flows into the function's result / the zeroing loop
                    if c0 is not None and isinstance(c0.get("v"), int):
                        starts.setdefault(fid, []).append((c0["v"], s2["s"]))
    if len(starts) == 2:
        def short_start(fid):
            # the first sampled range in program order is the short-read draw (the corruption offset is drawn after it, from 0..n)
            return sorted(starts[fid], key=lambda x: int(x[1].rsplit(":", 2)[-2]))[0]
        sa, sb = short_start("turmoil_io_uring::sim::exec_read"), short_start("turmoil_fs::shim::std::fs::File::read_at_internal")
        ok = sa[0] == sb[0] == 1
        ctx.inst(R, "exec_read~read_at_internal:short-read-never-empty", ok, sa[1], "a short read returns at least one byte in both APIs" if ok else
                 f"the short-read count is drawn from {sa[0]}..n by the ring and {sb[0]}..n by the file API: a ring read can report 0 bytes - end of file - although data exists at the "
                 "offset, and a consumer that reads until 0 silently truncates the file")
    # the flush that sync_probability injects comes after the write it belongs to, in the ring as in the file API: flushing first leaves the
    # ring's own write in the pending log, and a crash loses what the same write through the file API keeps
    for fid in ("turmoil_io_uring::sim::exec_write", "turmoil_fs::shim::std::fs::File::write_at_internal"):
        for fb in (ctx.w.family(fid) if fid in ctx.w.bodies else []):
            wf = [bb for bb, t in fb.calls("turmoil_fs::Fs::write_file")]
            sf = [bb for bb, t in fb.calls(re.compile(r"^turmoil_fs::Fs::(sync_file|sync_file_data)$"))]
            if wf and sf:
                ok = all(any(fb.dominated_by_block(x, w) for w in wf) for x in sf)
                ctx.inst(R, f"{fid.rsplit('::', 1)[1]}:write-before-injected-sync", ok, fb.site(sf[0]), "the injected flush follows the write" if ok else
                         f"`{fid}` runs the spontaneous flush before it stages its own write: the write stays in the pending log and is lost by a crash that the same write through the "
                         "other API survives")
    # O_DIRECT: buffer address, file offset and length are each tested against the alignment, by the ring as by the file API
    # (a test of a sum - `offset + len` - accepts a misaligned offset that the synchronous API refuses with EINVAL)
    for fid in ("turmoil_io_uring::sim::direct_io_aligned", "turmoil_fs::shim::std::fs::File::read_at_internal", "turmoil_fs::shim::std::fs::File::write_at_internal"):
        if fid not in ctx.w.bodies:
            if ctx.strict:
                ctx.bad(R, f"anchor-missing:{fid}", "", "alignment sibling not found")
            continue
        tests = []
        for fb in ctx.w.family(fid):
            for bb, t in fb.calls(re.compile(r"::is_multiple_of$")):
                tests.append((expr_shape(fb, t["args"][0]), t["s"]))
            for bb, i, s2 in fb.all_stmts():
                if i != "term" and s2["r"]["k"] == "bin" and s2["r"]["op"] == "Rem":
                    tests.append((expr_shape(fb, s2["r"]["a"]), s2["s"]))
        single = [sh for sh, _ in tests if not isinstance(sh, tuple)]
        ok = len(tests) >= 3 and len(single) == len(tests)
        ctx.inst(R, f"direct-io-alignment:{fid.rsplit('::', 1)[1]}", ok, tests[0][1] if tests else ctx.w.bodies[fid].span,
                 f"{len(tests)} separate alignment tests (address, offset, length)" if ok else
                 f"`{fid}` makes {len(tests)} alignment test(s) {[shape_str(sh) for sh, _ in tests]} instead of testing address, offset and length each on its own: "
                 "a transfer the other API refuses with EINVAL completes here (or the reverse)")
    # ... and in the same order: the request is validated (alignment -> EINVAL) before the injected fault is drawn (-> EIO). The other
    # order answers a misaligned O_DIRECT transfer with EIO whenever the fault fires and consumes an extra draw of the fs generator
    for fid in ("turmoil_io_uring::sim::exec_read", "turmoil_io_uring::sim::exec_write", "turmoil_fs::shim::std::fs::File::read_at_internal", "turmoil_fs::shim::std::fs::File::write_at_internal"):
        if fid not in ctx.w.bodies:
            continue
        for fb in ctx.w.family(fid):
            al = [bb for bb, t in fb.calls(re.compile(r"direct_io_aligned$|::is_multiple_of$|check_direct_io_alignment$"))]
            al += [bb for bb, i, s2 in fb.all_stmts() if i != "term" and s2["r"]["k"] == "bin" and s2["r"]["op"] == "Rem"]
            dr = [(bb, t) for bb, t in fb.calls(re.compile(r"FsContext::random_bool$|sim::sample_prob$|Rng::random_bool$"))
                  if any("io_error_probability" in a for x in t["args"] for a in Slicer(ctx.w).atoms(fb, x))]
            if not al or not dr:
                continue
            ok = not any(a in fb.reachable(bb) and a != bb for bb, t in dr for a in al)
            ctx.inst(R, f"{fid.rsplit('::', 1)[1]}:validated-before-the-fault-draw", ok, dr[0][1]["s"], "alignment is checked before the injected I/O error is drawn" if ok else
                     f"`{fid}` draws the injected I/O error before it validates the O_DIRECT alignment: a misaligned transfer completes with EIO here where the sibling API reports "
                     "EINVAL, and the extra draw shifts every later fault of the host's filesystem generator")
    # page-cache probe: hit / miss is decided before the page is inserted, in the ring scheduler as in the tokio shim
    n = 0
    for b in sorted(ctx.w.bodies.values(), key=lambda b: b.id):
        if b.crate not in ("turmoil_fs", "turmoil_io_uring") or "::tests::" in b.id or b.id.startswith("turmoil_fs::page_cache"):
            continue
        acc = [bb for bb, t in b.calls(re.compile(r"PageCache::access$"))]
        ins = [bb for bb, t in b.calls(re.compile(r"PageCache::insert$"))]
        for a in acc:
            n += 1
            root = b
            while root.parent and root.parent in ctx.w.bodies:
                root = ctx.w.bodies[root.parent]
            before = [i for i in ins if i != a and b.dominated_by_block(a, i)]
            # an insert that can flow into the probe (and is not simply the same loop iteration's later insert) decides the probe
            ok = not before
            ctx.inst(R, f"page-cache-probe:{root.id}#{n}", ok, b.term(a)["s"], "cold / warm is decided before the page is inserted" if ok else
                     f"`{root.id}` inserts the page before probing the cache: a cold read always counts as a hit and completes without the disk latency")
    ctx.floor(R, 17)


def r5(ctx):
    R = "C18-R5"
    ctx.rule(R, "every RingState method that pushes onto inflight calls cq_notify.notify_waiters() on every path after the push (a reaper "
                "parked on an idle ring has no deadline to wake it)")
    n = 0
    for b in sorted(ctx.w.bodies.values(), key=lambda b: b.id):
        if b.crate != "turmoil_io_uring":
            continue
        ps = [bb for bb, t in b.calls(re.compile(r"^std::vec::Vec::push$")) if INFL in _fields_of(b, t["args"][0])]
        if not ps:
            continue
        nt = [bb for bb, t in b.calls(re.compile(r"Notify::notify_waiters$|Notify::notify_one$"))]
        for x in ps:
            n += 1
            ok = bool(nt) and not always_passes(b, nt, frm=x)
            ctx.inst(R, f"{b.id}:notify-after-push#{n}", ok, b.site(x), "completion waiters are woken after the completion is queued" if ok else
                     f"`{b.id}` queues a completion on a path that does not wake the completion waiters: a reaper already parked on an idle ring never sees it")
    ctx.floor(R, 4)


def r6(ctx):
    R = "C18-R6"
    ctx.rule(R, "schedule_pending passes RingState::schedule the time Add(now, Fs::calculate_latency(..)); post_immediate_error / cancel stamp `now`")
    sp = ctx.body(R, "turmoil_io_uring::submit::schedule_pending")
    if sp:
        n = 0
        for bb, t in sp.calls(RS + "schedule"):
            o = origin(sp, t["args"][2])
            ok = False
            sat = None
            if o["k"] == "call" and re.search(r"Duration as std::ops::Add>::add$|Duration::(saturating_add|checked_add)$", o["t"]["f"]):
                a0 = Slicer(ctx.w).atoms(sp, o["t"]["args"][0])
                a1 = Slicer(ctx.w).atoms(sp, o["t"]["args"][1])
                ok = any(a.startswith("arg:4:") for a in a0) and "call:turmoil_fs::Fs::calculate_latency" in a1
                sat = not o["t"]["f"].endswith("::add")
            ctx.inst(R, f"schedule_pending:when#{n}", ok, t["s"], "completion time = now + sampled latency" if ok else "completion time is not now + Fs::calculate_latency(..)")
            if sat is not None:
                # the latency is configuration (any Duration): with the panicking `+` a latency near Duration::MAX ("never completes")
                # aborts the submit instead of leaving the entry in flight - it never gets its completion
                ctx.inst(R, f"schedule_pending:when-saturates#{n}", sat, t["s"], "completion time = now saturating_add latency" if sat else
                         "schedule_pending adds the configured latency to the clock with the panicking `+`: a latency the clock cannot represent panics inside "
                         "submit() (poisoning the ring state) instead of leaving the entry in flight - no completion is ever delivered for it")
            n += 1
        if n < 3 and ctx.strict:
            ctx.bad(R, "schedule_pending:when", sp.span, f"expected 3 schedule sites (read, write, fsync), found {n}")
    # the waiter side: AsyncFd::readable turns the earliest deadline into a tokio Instant
    rd = [b for b in ctx.w.find(r"^turmoil_io_uring::async_fd::AsyncFd::readable") ]
    for fb in rd:
        for bb, t in fb.calls(re.compile(r"Instant as std::ops::Add>::add$|Instant as std::ops::Add<.*>>::add$")):
            if str(t.get("x", "")).startswith("m:"):
                continue
            ctx.inst(R, "readable:deadline-representable", False, t["s"], "AsyncFd::readable adds the time to the earliest deadline to Instant::now() with the panicking `+`: "
                     "a deadline the clock cannot represent panics the waiter instead of letting it wait for a notification")
    if rd and not any(True for fb in rd for bb, t in fb.calls(re.compile(r"Instant as std::ops::Add")) if not str(t.get("x", "")).startswith("m:")):
        ctx.ok(R, "readable:deadline-representable", rd[0].span, "the waiter's deadline is computed with a checked addition")
    ctx.floor(R, 3)


def r7(ctx):
    R = "C18-R7"
    ctx.rule(R, "ring fds and file fds are monotone counters (never reused within a host): a completion can never be attributed to a newer ring / file")
    counter_rule(ctx, R, "turmoil_io_uring::host::IoUringHostState::next_ring_fd")
    counter_rule(ctx, R, "turmoil_fs::Fs::next_fd")
    ctx.floor(R, 2)


def r9(ctx):
    R = "C18-R9"
    ctx.rule(R, "(a) every submission completes: the eviction loop of PageCache::insert (`while len >= max_pages { remove oldest }`), which "
                "schedule_pending runs for every buffered read / write, can be left for every configuration - it stops when the removal "
                "finds nothing, or max_pages == 0 is handled before it (with max_pages 0 the test is always true and the set is empty); "
                "(b) AsyncCancel only cancels operations that are still in flight: the search in RingState::cancel looks at the entry's "
                "kind (ScheduledCqe::apply) and skips completions that were already posted (ImmediateError) - otherwise a cancel rewrites "
                "the result of an entry that had already completed")
    pi = ctx.body(R, "turmoil_fs::PageCache::insert")
    if pi and ctx.config in ("all", "fs", "fs_iou"):
        MP = "field:turmoil_fs::PageCacheConfig::max_pages"
        lps = [c for c in loops(pi)]
        ok = True
        for comp in lps:
            exits = loop_exits(pi, comp)
            # an exit that depends on the removal's result, or a guard on max_pages before the loop that returns
            by_result = any(pi.term(u)["k"] == "switch" and any(re.search(r"shift_remove_index$|swap_remove_index$|pop$|shift_remove$", a) for a in Slicer(ctx.w).atoms(pi, pi.term(u)["d"]) if a.startswith("call:"))
                            for u, v in exits)
            guarded = False
            for sbb, te, fe, o in guards_on(pi, lambda o: o["k"] == "bin" and o["op"] in ("Eq", "Ne", "Gt", "Lt", "Le", "Ge")):
                at = Slicer(ctx.w).atoms(pi, o["a"]) | Slicer(ctx.w).atoms(pi, o["b"])
                if MP in at and sbb not in comp and ((op_const(o["a"]) or op_const(o["b"]) or {}).get("v") in (0, 1)) and all(pi.dominated_by_block(min(comp), sbb) for _ in [0]):
                    guarded = True
            cmp_max = any(MP in Slicer(ctx.w).atoms(pi, pi.term(u)["d"]) for u, v in exits)
            if cmp_max and not (by_result or guarded):
                ok = False
        ctx.inst(R, "page-cache:eviction-terminates", ok and bool(lps), pi.span, "the eviction loop ends for every max_pages" if ok and lps else
                 "PageCache::insert evicts `while len >= max_pages` and never looks at whether anything was removed: page_cache().max_pages(0) makes the loop spin on an empty set - "
                 "submit() of any buffered Read / Write never returns and the entry never completes")
    cn = ctx.body(R, "turmoil_io_uring::sim::RingState::cancel")
    if cn and ctx.config in ("all", "fs_iou"):
        n_pos, n_kind = 0, 0
        for bb, t in cn.calls(re.compile(r"Iterator::position$|Iterator>::position$|Iterator::find$|Iterator::any$")):
            n_pos += 1
            for cid in closure_args(cn, t):
                for fb in ctx.w.family(cid):
                    reads = any("turmoil_io_uring::sim::ScheduledCqe::apply" in place_fields(pl) for _, _, s in fb.all_stmts()
                                for pl in [s["p"]] + ([s["r"]["p"]] if isinstance(s["r"].get("p"), dict) else []) + [op_place(o) for o in [s["r"].get("o")] if isinstance(o, dict) and op_place(o)])
                    if reads:
                        n_kind += 1
        ok = n_pos > 0 and n_kind >= n_pos
        ctx.inst(R, "cancel:targets-operations-only", ok, cn.span, "a cancel only matches operations still in flight" if ok else
                 "RingState::cancel finds its target by user_data alone, so it also matches completions that were already posted (the -EINVAL of a rejected entry, the result of an "
                 "earlier cancel) and rewrites them to -ECANCELED: {1: -EINVAL, 2: -ENOENT} becomes {1: -ECANCELED, 2: 0}")
    ctx.floor(R, 2)


def r10(ctx):
    R = "C18-R10"
    ctx.rule(R, "every entry completes whatever offset it names: an SQE's offset and length are the guest's (any u64 / u32). A panicking `offset + len` "
                "in an executor (exec_read / exec_write run inside CompletionQueue::next under the ring lock) would abort the drain and leave the entry "
                "without a completion - so either the executors do that arithmetic without a panicking operator, or schedule_pending turns "
                "unrepresentable ranges into an immediate error before scheduling (a checked_add of the entry's offset and len whose failing edge "
                "reaches post_immediate_error and no schedule)")
    risky = []
    for fid in ("turmoil_io_uring::sim::exec_read", "turmoil_io_uring::sim::exec_write"):
        for fb in (ctx.w.family(fid) if fid in ctx.w.bodies else []):
            for bb, i, s2 in fb.all_stmts():
                r = s2["r"]
                if i == "term" or r["k"] != "bin" or r["op"] not in ("AddWithOverflow", "MulWithOverflow"):
                    continue
                at = Slicer(ctx.w).atoms(fb, r["a"]) | Slicer(ctx.w).atoms(fb, r["b"])
                if any(re.match(r"arg:\d+:offset@", a) for a in at):
                    risky.append((fid, s2["s"]))
    sp = ctx.body(R, "turmoil_io_uring::submit::schedule_pending")
    guard = False
    if sp:
        OFF = re.compile(r"^field:turmoil_io_uring::squeue::OpKind::.*offset$|OpKind.*::offset$")
        sched = [bb for bb, t in sp.calls(RS + "schedule")]
        pie = [bb for bb, t in sp.calls(RS + "post_immediate_error")]
        for sbb, te, fe, o in guards_on(sp, lambda o: o["k"] == "call" and re.search(r"Option::(is_none|is_some)$", o["t"]["f"])):
            src = origin(sp, o["t"]["args"][0])
            src = origin(sp, {"c": src["p"]}) if src["k"] == "ref" and not src["p"].get("p") else src
            if src["k"] != "call" or not src["t"]["f"].endswith("::checked_add"):
                continue
            at = Slicer(ctx.w).atoms(sp, src["t"]["args"][0]) | Slicer(ctx.w).atoms(sp, src["t"]["args"][1])
            if not any("offset" in a for a in at if a.startswith("field:")) or not any(a.endswith("::len") or "::len" in a for a in at if a.startswith("field:")):
                continue
            fail = te if o["t"]["f"].endswith("is_none") else fe
            for e in fail:
                r_ = sp.reachable(e[1], stop=[sbb])
                nxt = [x for x, t2 in sp.calls(re.compile(r"Iterator>::next$")) ]
                r_ = sp.reachable(e[1], stop=nxt)
                if any(x in r_ for x in pie) and not any(x in r_ for x in sched):
                    guard = True
    ok = not risky or guard
    ctx.inst(R, "offset-range:representable", ok, risky[0][1] if risky else (sp.span if sp else ""),
             ("no panicking arithmetic on the guest's offset in the executors" if not risky else "unrepresentable offset ranges are completed with an immediate error at submit") if ok else
             f"`{risky[0][0]}` computes `offset + len` with the panicking `+` on values the guest chose, and schedule_pending schedules every Read / Write unseen: "
             "an entry with offset near u64::MAX (incl. -1, `use the file position`) panics inside CompletionQueue::next, poisons the ring lock and never completes")
    ctx.floor(R, 1)


def r12(ctx):
    R = "C18-R12"
    ctx.rule(R, "an operation takes effect when its completion is reaped, not when it is submitted: PendingApply::execute is called only from the "
                "completion queue's drain (CompletionQueue::next) - an fsync executed in schedule_pending flushes before the writes submitted "
                "ahead of it were reaped (they are not in the pending log yet) and reports success for data a crash then loses")
    callers = sorted({_root_id(ctx, b) for b, bb, t in who_calls(ctx.w, "turmoil_io_uring::sim::PendingApply::execute")})
    ok = bool(callers) and all(c.startswith("<turmoil_io_uring::cqueue::CompletionQueue as std::iter::Iterator>::next") for c in callers)
    ctx.inst(R, "execute:only-when-reaped", ok, "", f"PendingApply::execute is called from {callers}" if ok else
             f"PendingApply::execute is called from {callers}: an operation is applied outside the completion drain (at submission) - its effect no longer coincides with "
             "the CQE that reports it")
    ctx.floor(R, 1)


def _root_id(ctx, b):
    while b.parent and b.parent in ctx.w.bodies:
        b = ctx.w.bodies[b.parent]
    return b.id


def r11(ctx):
    R = "C18-R11"
    ctx.rule(R, "(a) the two fd tables move together: a function of the file shim that registers a new fd in Fs::open_handles also registers it "
                "in Fs::direct_io_fds (under the handle's O_DIRECT test), and one that removes an fd removes it from both - the ring looks an fd "
                "up in these tables only, so a clone of an O_DIRECT handle that is missing from direct_io_fds skips the alignment check "
                "the file API applies; (b) rejecting submission flags is monotone: Flags::has_unsupported never tests that a masked bit "
                "is *absent* (`bits & M == 0`) - with such a test one flag makes a rejected combination acceptable")
    OH, DF = "turmoil_fs::Fs::open_handles", "turmoil_fs::Fs::direct_io_fds"
    ADD = re.compile(r"^indexmap::Index(Map|Set)::(insert|insert_full)$")
    DEL = re.compile(r"^indexmap::Index(Map|Set)::(swap_remove|shift_remove|remove)$")
    roots = {}
    for b in sorted(ctx.w.bodies.values(), key=lambda x: x.id):
        if b.crate != "turmoil_fs":
            continue
        for kind, pat in (("add", ADD), ("del", DEL)):
            for bb, t in b.calls(pat):
                fs = _fields(b, t["args"][0]) if t["args"] else []
                for f in (OH, DF):
                    if f in fs:
                        root = b
                        while root.parent and root.parent in ctx.w.bodies:
                            root = ctx.w.bodies[root.parent]
                        roots.setdefault((root.id, kind), {}).setdefault(f, t["s"])
    n = 0
    for (rid, kind), got in sorted(roots.items()):
        if OH not in got:
            continue
        n += 1
        ok = DF in got
        ctx.inst(R, f"fd-tables:{rid}:{kind}", ok, got[OH], f"open_handles and direct_io_fds are both {'extended' if kind == 'add' else 'shrunk'}" if ok else
                 f"`{rid}` {'registers a new fd in' if kind == 'add' else 'removes an fd from'} Fs::open_handles but not {'in' if kind == 'add' else 'from'} Fs::direct_io_fds: "
                 + ("a handle cloned from an O_DIRECT file is buffered for the ring - a misaligned ring write on it succeeds where the file API returns EINVAL" if kind == "add" else
                    "a closed O_DIRECT fd number stays marked, and the next file that gets the number is treated as O_DIRECT by the ring"))
    if ctx.config in ("all", "fs", "fs_iou") or ctx.strict:
        ctx.floor(R, 3)
    hu = ctx.w.bodies.get("turmoil_io_uring::squeue::Flags::has_unsupported")
    if hu:
        bad = []
        for bb, i, st in hu.all_stmts():
            r = st["r"]
            if i == "term" or r["k"] != "bin" or r["op"] not in ("Eq", "Ne"):
                continue
            sides = [(r["a"], r["b"]), (r["b"], r["a"])]
            for x, z in sides:
                c = op_const(z)
                if c is None or c.get("v") != 0:
                    continue
                at = Slicer(ctx.w).atoms(hu, x)
                if "binop:BitAnd" not in at:
                    continue
                absent = r["op"] == "Eq"
                # `!(bits & M == 0)`: a direct negation turns the test back into a presence test
                dst = st["p"]["l"]
                if any(s2["r"]["k"] == "un" and s2["r"]["op"] == "Not" and (op_place(s2["r"]["a"]) or {}).get("l") == dst for _, i2, s2 in hu.all_stmts() if i2 != "term"):
                    absent = not absent
                if absent:
                    bad.append(st["s"])
        ctx.inst(R, "flags:rejection-is-monotone", not bad, bad[0] if bad else hu.span, "a flag set is rejected because of the bits it has, never because of bits it lacks" if not bad else
                 "Flags::has_unsupported tests that a masked bit is absent: a combination that contains the accepted flag (ASYNC | IO_LINK, ASYNC | FIXED_FILE) is no longer rejected - "
                 "the SQE is executed (the write lands, the cancel cancels) instead of completing with -EINVAL and no effect")
    elif ctx.strict and ctx.config in ("all", "fs_iou"):
        ctx.bad(R, "anchor-missing:has_unsupported", "", "Flags::has_unsupported not found")


def _fields(b, op):
    o = deref_origin(b, op)
    return root_place(b, o["p"])[1] if o["k"] == "place" else []


def run(ctx):
    r11(ctx)
    if ctx.config in ("all", "fs_iou"):
        from . import C01
        C01.r8(ctx)   # the entered ring registry is put back as it was found: a stale registry lets one host's IoUring::drop remove another host's ring
    if ctx.config in ("all", "fs_iou"):
        r12(ctx)
    if ctx.config in ("all", "fs", "fs_iou"):
        from . import C07
        C07.r7(ctx)   # the result of the flush is the result of the fsync: a failed sync_file must not complete with 0
    r10(ctx)
    r9(ctx)
    scan_rule(ctx, "C18")
    r7(ctx)
    r1(ctx)
    r2(ctx)
    r3(ctx)
    r4(ctx)
    r5(ctx)
    r6(ctx)
    C04.r1(ctx)
